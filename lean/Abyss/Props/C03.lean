import Abyss.Buf
/-!
# C03 — flush / sync make all preceding updates durable;  C16 — a failed flush is reported and
loses nothing  (theorems about the buffer state machine `Abyss/Buf.lean`)

"Durable" here means: handed to the operating system by `write` (disk = memory for every byte and
the length) and, for `sync_all` / `sync_data`, followed by the corresponding OS sync request on
each of the three files, after that file's write-back.  What the kernel and the device do with it
is outside the model (DESIGN.md §5).
-/
namespace Abyss.Buf

def Content.ofList (l : List Nat) : Content := ⟨fun i => l.getD i 0, l.length⟩
def Content.toList (c : Content) : List Nat := (List.range c.len).map c.byte

theorem Content.toList_ofList (l : List Nat) : (Content.ofList l).toList = l := by
  apply List.ext_getElem
  · simp [Content.toList, Content.ofList]
  · intro i h1 h2
    simp [Content.toList, Content.ofList, h2]

/-- buffered writes keep a file coherent and are visible to every later read -/
theorem write_coherent (f : BFile) (h : f.Coherent) (off : Nat) (bs : List Nat) :
    (f.write off bs).Coherent := by
  obtain ⟨hc, hb, hl⟩ := h
  refine ⟨hc, ?_, ?_⟩
  · intro i hi
    simp only [BFile.write, List.mem_append, List.mem_map, List.mem_range, not_or] at hi ⊢
    split
    · next hin =>
      exfalso; apply hi.2
      exact ⟨i - off, by omega, by congr 1; omega⟩
    · exact hb i hi.1
  · intro hd
    simp [BFile.write] at hd ⊢
    simp [hd, hl hd.1]

theorem read_after_write (f : BFile) (off : Nat) (bs : List Nat) :
    (f.write off bs).read off bs.length = bs := by
  apply List.ext_getElem
  · simp [BFile.read]
  · intro i h1 h2
    simp [BFile.read, BFile.write, h2]

/-- reads never change a buffered file (C15, buffer level): `read` is a pure function of `mem` -/
theorem read_pure (f : BFile) (off n : Nat) : f.read off n = (List.range n).map fun j => f.mem.byte (off + j) := rfl

/-- helper: write-back (refused or not) never touches the memory view or the chunk size -/
theorem flushFrom_mem (φ : Faults) (cs : List Nat) : ∀ (f : BFile) (k : Nat),
    (BFile.flushFrom φ cs f k).1.mem = f.mem ∧ (BFile.flushFrom φ cs f k).1.chunk = f.chunk := by
  induction cs with
  | nil => intro f k; simp [BFile.flushFrom]
  | cons c cs ih =>
    intro f k
    simp only [BFile.flushFrom]
    split
    · simp [BFile.writeRefused]
    · rw [(ih _ _).1, (ih _ _).2]; simp [BFile.writeBack]

/-- helper: the loop of `flush` over a duplicate-free list `cs` that lists exactly the dirty chunks.
Invariant: disk and memory agree outside the dirty chunks (the length clause of `Coherent` is only
re-established at the end, or holds vacuously at a refused write because that chunk is still dirty). -/
theorem flushFrom_spec (φ : Faults) (cs : List Nat) : ∀ (f : BFile) (k : Nat), 0 < f.chunk →
    (∀ i, i / f.chunk ∉ f.dirty → f.disk.byte i = f.mem.byte i) → cs.Nodup →
    (∀ c, c ∈ f.dirty ↔ c ∈ cs) →
    (BFile.flushFrom φ cs f k).1.Coherent ∧
    ((BFile.flushFrom φ cs f k).2.1 = true →
      (BFile.flushFrom φ cs f k).1.Durable ∧ (BFile.flushFrom φ cs f k).1.dirty = []) ∧
    ((BFile.flushFrom φ cs f k).2.1 = false →
      ∃ j, k ≤ j ∧ j < (BFile.flushFrom φ cs f k).2.2 ∧ φ.fails j = true) ∧
    ((∀ j, φ.fails j = false) → (BFile.flushFrom φ cs f k).2.1 = true) := by
  induction cs with
  | nil =>
    intro f k hc hb _ hm
    have hd : f.dirty = [] := List.eq_nil_iff_forall_not_mem.2 fun c hcm => by simpa using (hm c).1 hcm
    have hb' : ∀ i, f.disk.byte i = f.mem.byte i := fun i => hb i (by simp [hd])
    simp [BFile.flushFrom, BFile.Coherent, BFile.Durable, hc, hd, hb']
  | cons c cs ih =>
    intro f k hc hb hnd hm
    simp only [BFile.flushFrom]
    by_cases hf : φ.fails k = true
    · simp only [hf, if_true]
      refine ⟨⟨hc, ?_, ?_⟩, by simp, fun _ => ⟨k, Nat.le_refl _, Nat.lt_succ_self _, hf⟩, ?_⟩
      · intro i hi
        simp only [BFile.writeRefused] at hi ⊢
        split
        · rfl
        · exact hb i hi
      · intro hd
        have : c ∈ f.dirty := (hm c).2 (by simp)
        simp [BFile.writeRefused] at hd
        simp [hd] at this
      · intro hall; simp [hall k] at hf
    · simp only [hf]
      have hnd' := List.nodup_cons.1 hnd
      have := ih (f.writeBack c) (k + 1) hc ?_ hnd'.2 ?_
      · obtain ⟨h1, h2, h3, h4⟩ := this
        refine ⟨h1, h2, ?_, h4⟩
        intro hfl
        obtain ⟨j, hj1, hj2, hj3⟩ := h3 hfl
        exact ⟨j, by omega, hj2, hj3⟩
      · intro i hi
        simp only [BFile.writeBack, List.mem_filter, decide_eq_true_eq, not_and, Decidable.not_not] at hi ⊢
        split
        · rfl
        · next hne => exact hb i fun hmem => hne (hi hmem)
      · intro d
        simp only [BFile.writeBack, List.mem_filter, decide_eq_true_eq]
        rw [hm d]
        constructor
        · rintro ⟨h1, h2⟩
          cases List.mem_cons.1 h1 with
          | inl h => exact absurd h h2
          | inr h => exact h
        · intro h
          exact ⟨List.mem_cons_of_mem _ h, fun he => hnd'.1 (he ▸ h)⟩

/-- helper: `List.eraseDups` has no duplicates (not in core) -/
theorem nodup_eraseDups : ∀ (n : Nat) (l : List Nat), l.length ≤ n → l.eraseDups.Nodup
  | _, [], _ => by simp
  | 0, _ :: _, h => by simp at h
  | n + 1, a :: as, h => by
    rw [List.eraseDups_cons, List.nodup_cons]
    refine ⟨?_, nodup_eraseDups n _ (Nat.le_trans (List.length_filter_le _ _) (by simpa using h))⟩
    rw [List.mem_eraseDups]; simp

/-- one file: a flush under any fault schedule keeps the memory view and coherence; if it reports
Ok the disk equals the memory view and nothing is dirty any more -/
theorem flush_spec (φ : Faults) (f : BFile) (h : f.Coherent) (k : Nat) :
    (f.flush φ k).1.Coherent ∧ (f.flush φ k).1.mem = f.mem ∧ (f.flush φ k).1.chunk = f.chunk ∧
    ((f.flush φ k).2.1 = true → (f.flush φ k).1.Durable ∧ (f.flush φ k).1.dirty = []) ∧
    ((f.flush φ k).2.1 = false → ∃ j, k ≤ j ∧ j < (f.flush φ k).2.2 ∧ φ.fails j = true) ∧
    ((∀ j, φ.fails j = false) → (f.flush φ k).2.1 = true) := by
  have h1 := flushFrom_spec φ f.dirty.eraseDups f k h.1 h.2.1
    (nodup_eraseDups _ _ (Nat.le_refl _)) (fun c => List.mem_eraseDups.symm)
  have h2 := flushFrom_mem φ f.dirty.eraseDups f k
  exact ⟨h1.1, h2.1, h2.2, h1.2⟩

/-- `flush_spec` for a named result -/
theorem flush_spec' {φ : Faults} {f g : BFile} {k k' : Nat} {ok : Bool} (h : f.Coherent)
    (e : f.flush φ k = (g, ok, k')) :
    g.Coherent ∧ g.mem = f.mem ∧ g.chunk = f.chunk ∧ (ok = true → g.Durable ∧ g.dirty = []) ∧
    (ok = false → ∃ j, k ≤ j ∧ j < k' ∧ φ.fails j = true) ∧
    ((∀ j, φ.fails j = false) → ok = true) := by
  have := flush_spec φ f h k
  rw [e] at this; exact this

/-- the memory view survives a flush even of an incoherent file -/
theorem flush_mem' {φ : Faults} {f g : BFile} {k k' : Nat} {ok : Bool}
    (e : f.flush φ k = (g, ok, k')) : g.mem = f.mem := by
  have := (flushFrom_mem φ f.dirty.eraseDups f k).1
  unfold BFile.flush at e
  rw [e] at this; exact this

theorem durable_of_clean (f : BFile) (h : f.Coherent) (hd : f.dirty = []) : f.Durable :=
  ⟨fun i => h.2.1 i (by simp [hd]), h.2.2 hd⟩

theorem foldl_write_coherent (ws : List (Nat × List Nat)) : ∀ (f : BFile), f.Coherent →
    (ws.foldl (fun f w => f.write w.1 w.2) f).Coherent := by
  induction ws with
  | nil => intro f h; exact h
  | cons w ws ih => intro f h; exact ih _ (write_coherent f h _ _)

/-- an update keeps the buffer invariant and raises the dirty flag -/
theorem update_ok (m : MapBuf) (h : m.OK) (wv wk wh : List (Nat × List Nat)) :
    (m.update wv wk wh).OK ∧ (m.update wv wk wh).dirty = true := by
  refine ⟨⟨foldl_write_coherent _ _ h.1, foldl_write_coherent _ _ h.2.1,
    foldl_write_coherent _ _ h.2.2.1, ?_⟩, rfl⟩
  intro hd; simp [MapBuf.update] at hd

/-- helper: the five ways a flush-like call can go -/
theorem flushLike_cases (φ : Faults) (kind : SyncKind) (m : MapBuf) :
    (m.dirty = false ∧ m.flushLike φ kind = (m, true, [])) ∨
    (m.dirty = true ∧ ∃ v k1, m.val.flush φ 0 = (v, false, k1) ∧
      m.flushLike φ kind = ({ m with val := v }, false, [.flush "val"])) ∨
    (m.dirty = true ∧ ∃ v k1 kf k2, m.val.flush φ 0 = (v, true, k1) ∧
      m.key.flush φ k1 = (kf, false, k2) ∧
      m.flushLike φ kind = ({ m with val := v, key := kf }, false, evs kind "val" ++ [.flush "key"])) ∨
    (m.dirty = true ∧ ∃ v k1 kf k2 hx k3, m.val.flush φ 0 = (v, true, k1) ∧
      m.key.flush φ k1 = (kf, true, k2) ∧ m.htx.flush φ k2 = (hx, false, k3) ∧
      m.flushLike φ kind = ({ m with val := v, key := kf, htx := hx }, false,
        evs kind "val" ++ evs kind "key" ++ [.flush "htx"])) ∨
    (m.dirty = true ∧ ∃ v k1 kf k2 hx k3, m.val.flush φ 0 = (v, true, k1) ∧
      m.key.flush φ k1 = (kf, true, k2) ∧ m.htx.flush φ k2 = (hx, true, k3) ∧
      m.flushLike φ kind = ({ val := v, key := kf, htx := hx, dirty := false }, true,
        evs kind "val" ++ evs kind "key" ++ evs kind "htx")) := by
  unfold MapBuf.flushLike
  cases hd : m.dirty
  · left; simp
  · right
    rcases hv : m.val.flush φ 0 with ⟨v, okv, k1⟩
    cases okv
    · left; exact ⟨rfl, v, k1, rfl, by simp⟩
    · right
      rcases hk : m.key.flush φ k1 with ⟨kf, okk, k2⟩
      cases okk
      · left; exact ⟨rfl, v, k1, kf, k2, rfl, hk, by simp [hk]⟩
      · right
        rcases hh : m.htx.flush φ k2 with ⟨hx, okh, k3⟩
        cases okh
        · left; exact ⟨rfl, v, k1, kf, k2, hx, k3, rfl, hk, hh, by simp [hk, hh]⟩
        · right; exact ⟨rfl, v, k1, kf, k2, hx, k3, rfl, hk, hh, by simp [hk, hh]⟩

/-- **C03.** Whenever flush / sync_all / sync_data returns Ok, every byte and the length of each of
the three files on disk equal what the map sees in memory — i.e. every preceding update is on disk —
whatever happened before (including earlier failed flushes), and the buffers are clean. -/
theorem C03_durable (φ : Faults) (kind : SyncKind) (m : MapBuf) (h : m.OK)
    (hok : (m.flushLike φ kind).2.1 = true) :
    (m.flushLike φ kind).1.Durable ∧ (m.flushLike φ kind).1.OK := by
  rcases flushLike_cases φ kind m with ⟨hd, e⟩ | ⟨hd, v, k1, ev, e⟩ | ⟨hd, v, k1, kf, k2, ev, ek, e⟩ |
    ⟨hd, v, k1, kf, k2, hx, k3, ev, ek, eh, e⟩ | ⟨hd, v, k1, kf, k2, hx, k3, ev, ek, eh, e⟩ <;>
    rw [e] at hok ⊢ <;> simp at hok
  · obtain ⟨c1, c2, c3⟩ := h.2.2.2 hd
    exact ⟨⟨durable_of_clean _ h.1 c1, durable_of_clean _ h.2.1 c2, durable_of_clean _ h.2.2.1 c3⟩, h⟩
  · have sv := flush_spec' h.1 ev
    have sk := flush_spec' h.2.1 ek
    have sh := flush_spec' h.2.2.1 eh
    exact ⟨⟨(sv.2.2.2.1 rfl).1, (sk.2.2.2.1 rfl).1, (sh.2.2.2.1 rfl).1⟩,
      sv.1, sk.1, sh.1, fun _ => ⟨(sv.2.2.2.1 rfl).2, (sk.2.2.2.1 rfl).2, (sh.2.2.2.1 rfl).2⟩⟩

theorem noFaults_fails (j : Nat) : noFaults.fails j = false := rfl

/-- a map that was only created (dirty flag raised by `open`, headers in the buffers) becomes a
valid image on disk with the first successful flush: same theorem, the memory view being the
rendered empty map -/
theorem C03_fresh (kind : SyncKind) (m : MapBuf) (h : m.OK) (hd : m.dirty = true) :
    (m.flushLike noFaults kind).2.1 = true ∧ (m.flushLike noFaults kind).1.Durable := by
  have _ := hd  -- (not needed: with a clear flag the call is a no-op on an already durable map)
  have key : (m.flushLike noFaults kind).2.1 = true := by
    rcases flushLike_cases noFaults kind m with ⟨hd', e⟩ | ⟨hd', v, k1, ev, e⟩ |
      ⟨hd', v, k1, kf, k2, ev, ek, e⟩ |
      ⟨hd', v, k1, kf, k2, hx, k3, ev, ek, eh, e⟩ | ⟨hd', v, k1, kf, k2, hx, k3, ev, ek, eh, e⟩ <;>
      rw [e]
    · exact absurd ((flush_spec' h.1 ev).2.2.2.2.2 noFaults_fails) (by simp)
    · exact absurd ((flush_spec' h.2.1 ek).2.2.2.2.2 noFaults_fails) (by simp)
    · exact absurd ((flush_spec' h.2.2.1 eh).2.2.2.2.2 noFaults_fails) (by simp)
  exact ⟨key, (C03_durable noFaults kind m h key).1⟩

/-- sync_all / sync_data ask the operating system to sync each of the three files, each after
that file's own write-back, in the order value, key, table file -/
theorem C03_sync_events (φ : Faults) (kind : SyncKind) (m : MapBuf) (hd : m.dirty = true)
    (hok : (m.flushLike φ kind).2.1 = true) :
    (m.flushLike φ kind).2.2 = evs kind "val" ++ evs kind "key" ++ evs kind "htx" := by
  rcases flushLike_cases φ kind m with ⟨hd', e⟩ | ⟨hd', v, k1, ev, e⟩ |
    ⟨hd', v, k1, kf, k2, ev, ek, e⟩ |
    ⟨hd', v, k1, kf, k2, hx, k3, ev, ek, eh, e⟩ | ⟨hd', v, k1, kf, k2, hx, k3, ev, ek, eh, e⟩ <;>
    rw [e] at hok ⊢ <;> simp at hok
  · simp [hd] at hd'

/-- **C16 (reported).** If the operating system refuses any write the call attempts, the call
returns Err: an Ok result means no attempted write was refused. -/
theorem C16_reported (φ : Faults) (kind : SyncKind) (m : MapBuf) (h : m.OK)
    (hfail : (m.flushLike φ kind).2.1 = false) : ∃ j, φ.fails j = true := by
  rcases flushLike_cases φ kind m with ⟨hd', e⟩ | ⟨hd', v, k1, ev, e⟩ |
    ⟨hd', v, k1, kf, k2, ev, ek, e⟩ |
    ⟨hd', v, k1, kf, k2, hx, k3, ev, ek, eh, e⟩ | ⟨hd', v, k1, kf, k2, hx, k3, ev, ek, eh, e⟩ <;>
    rw [e] at hfail <;> simp at hfail
  · obtain ⟨j, _, _, hj⟩ := (flush_spec' h.1 ev).2.2.2.2.1 rfl; exact ⟨j, hj⟩
  · obtain ⟨j, _, _, hj⟩ := (flush_spec' h.2.1 ek).2.2.2.2.1 rfl; exact ⟨j, hj⟩
  · obtain ⟨j, _, _, hj⟩ := (flush_spec' h.2.2.1 eh).2.2.2.2.1 rfl; exact ⟨j, hj⟩

/-- **C16 (nothing lost).** A flush — failed or not — never changes what the map sees in memory -/
theorem C16_memory_intact (φ : Faults) (kind : SyncKind) (m : MapBuf) :
    (m.flushLike φ kind).1.val.mem = m.val.mem ∧ (m.flushLike φ kind).1.key.mem = m.key.mem ∧
    (m.flushLike φ kind).1.htx.mem = m.htx.mem := by
  rcases flushLike_cases φ kind m with ⟨hd', e⟩ | ⟨hd', v, k1, ev, e⟩ |
    ⟨hd', v, k1, kf, k2, ev, ek, e⟩ |
    ⟨hd', v, k1, kf, k2, hx, k3, ev, ek, eh, e⟩ | ⟨hd', v, k1, kf, k2, hx, k3, ev, ek, eh, e⟩ <;>
    rw [e]
  · exact ⟨rfl, rfl, rfl⟩
  · exact ⟨flush_mem' ev, rfl, rfl⟩
  · exact ⟨flush_mem' ev, flush_mem' ek, rfl⟩
  · exact ⟨flush_mem' ev, flush_mem' ek, flush_mem' eh⟩
  · exact ⟨flush_mem' ev, flush_mem' ek, flush_mem' eh⟩

/-- helper: a failed flush-like call keeps the invariant and the raised flag -/
theorem failed_ok (φ : Faults) (kind : SyncKind) (m : MapBuf) (h : m.OK)
    (hfail : (m.flushLike φ kind).2.1 = false) :
    (m.flushLike φ kind).1.OK ∧ (m.flushLike φ kind).1.dirty = true := by
  rcases flushLike_cases φ kind m with ⟨hd', e⟩ | ⟨hd', v, k1, ev, e⟩ |
    ⟨hd', v, k1, kf, k2, ev, ek, e⟩ |
    ⟨hd', v, k1, kf, k2, hx, k3, ev, ek, eh, e⟩ | ⟨hd', v, k1, kf, k2, hx, k3, ev, ek, eh, e⟩ <;>
    rw [e] at hfail ⊢ <;> simp at hfail
  · exact ⟨⟨(flush_spec' h.1 ev).1, h.2.1, h.2.2.1, fun hc => by simp [hd'] at hc⟩, hd'⟩
  · exact ⟨⟨(flush_spec' h.1 ev).1, (flush_spec' h.2.1 ek).1, h.2.2.1,
      fun hc => by simp [hd'] at hc⟩, hd'⟩
  · exact ⟨⟨(flush_spec' h.1 ev).1, (flush_spec' h.2.1 ek).1, (flush_spec' h.2.2.1 eh).1,
      fun hc => by simp [hd'] at hc⟩, hd'⟩

/-- **C16 (recovery).** After a failed flush the buffers are still consistent and the dirty flag
is still raised, so once writes are accepted again a later flush returns Ok and makes everything
durable. -/
theorem C16_recovers (φ : Faults) (kind kind' : SyncKind) (m : MapBuf) (h : m.OK)
    (hfail : (m.flushLike φ kind).2.1 = false) :
    let m1 := (m.flushLike φ kind).1
    m1.OK ∧ m1.dirty = true ∧ (m1.flushLike noFaults kind').2.1 = true ∧
    (m1.flushLike noFaults kind').1.Durable ∧
    (m1.flushLike noFaults kind').1.val.mem = m.val.mem ∧
    (m1.flushLike noFaults kind').1.key.mem = m.key.mem ∧
    (m1.flushLike noFaults kind').1.htx.mem = m.htx.mem := by
  intro m1
  obtain ⟨h1, h2⟩ := failed_ok φ kind m h hfail
  obtain ⟨h3, h4⟩ := C03_fresh kind' m1 h1 h2
  obtain ⟨a1, a2, a3⟩ := C16_memory_intact noFaults kind' m1
  obtain ⟨b1, b2, b3⟩ := C16_memory_intact φ kind m
  exact ⟨h1, h2, h3, h4, a1.trans b1, a2.trans b2, a3.trans b3⟩

/-- without the dirty flag (the defect fixed by `fix: raise the dirty flag…`) the claim is false:
a map with pending writes whose flag is clear is not made durable. Kept as the refutation witness
of the unfixed behaviour. -/
example : ∃ m : MapBuf, m.dirty = false ∧ (m.flushLike noFaults .flush).2.1 = true ∧
    ¬ (m.flushLike noFaults .flush).1.val.Durable := by
  let f : BFile := { disk := ⟨fun _ => 0, 0⟩, mem := ⟨fun _ => 1, 0⟩, dirty := [0], chunk := 4 }
  refine ⟨⟨f, f, f, false⟩, rfl, ?_, ?_⟩
  · simp [MapBuf.flushLike]
  · simp [MapBuf.flushLike, BFile.Durable, f]

end Abyss.Buf

/-! ## The crash image: what a copy of the directory holds when flush / sync returns -/
namespace Abyss.Buf

/-- If the memory view of the three buffered files is the rendered image of the map state
(which is what every API call maintains: the model's `render` is compared with the real files
byte for byte on every run), then after a flush / sync that returned Ok the bytes *on disk* are
exactly that image — for any earlier history of failed flushes. Together with `C02_reopen`
(the reader recovers the state from the image) this is the statement "a copy of the directory
taken at that moment opens to exactly the current map state". -/
theorem C03_crash_image (φ : Faults) (kind : SyncKind) (m : MapBuf) (h : m.OK)
    (img_htx img_key img_val : List Nat)
    (hv : m.val.mem = Content.ofList img_val) (hk : m.key.mem = Content.ofList img_key)
    (hh : m.htx.mem = Content.ofList img_htx)
    (hok : (m.flushLike φ kind).2.1 = true) :
    (m.flushLike φ kind).1.val.disk.toList = img_val ∧
    (m.flushLike φ kind).1.key.disk.toList = img_key ∧
    (m.flushLike φ kind).1.htx.disk.toList = img_htx := by
  have hd := (C03_durable φ kind m h hok).1
  have hm := C16_memory_intact φ kind m
  obtain ⟨⟨hvb, hvl⟩, ⟨hkb, hkl⟩, ⟨hhb, hhl⟩⟩ := hd
  obtain ⟨hmv, hmk, hmh⟩ := hm
  refine ⟨?_, ?_, ?_⟩
  · rw [← Content.toList_ofList img_val, ← hv, ← hmv]
    simp only [Content.toList, hvl]
    exact List.map_congr_left (fun i _ => hvb i)
  · rw [← Content.toList_ofList img_key, ← hk, ← hmk]
    simp only [Content.toList, hkl]
    exact List.map_congr_left (fun i _ => hkb i)
  · rw [← Content.toList_ofList img_htx, ← hh, ← hmh]
    simp only [Content.toList, hhl]
    exact List.map_congr_left (fun i _ => hhb i)

end Abyss.Buf
