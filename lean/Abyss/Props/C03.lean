import Abyss.Buf
/-!
# C03 — flush / sync make all preceding updates durable;  C16 — a failed flush is reported and
loses nothing  (theorems about the buffer state machine `Abyss/Buf.lean`)

"Durable" here means: handed to the operating system by `write` (disk = memory for every byte and
the length) and, for `sync_all` / `sync_data`, followed by the corresponding OS sync request on
each of the three files, after that file's write-back.  What the kernel and the device do with it
is outside the model (DESIGN.md §5).
-/
namespace Abyss.Buf

def Content.ofList (l : List Nat) : Content := ⟨fun i => l.getD i 0, l.length⟩
def Content.toList (c : Content) : List Nat := (List.range c.len).map c.byte

theorem Content.toList_ofList (l : List Nat) : (Content.ofList l).toList = l := by sorry

/-- buffered writes keep a file coherent and are visible to every later read -/
theorem write_coherent (f : BFile) (h : f.Coherent) (off : Nat) (bs : List Nat) :
    (f.write off bs).Coherent := by sorry

theorem read_after_write (f : BFile) (off : Nat) (bs : List Nat) :
    (f.write off bs).read off bs.length = bs := by sorry

/-- reads never change a buffered file (C15, buffer level): `read` is a pure function of `mem` -/
theorem read_pure (f : BFile) (off n : Nat) : f.read off n = (List.range n).map fun j => f.mem.byte (off + j) := rfl

/-- one file: a flush under any fault schedule keeps the memory view and coherence; if it reports
Ok the disk equals the memory view and nothing is dirty any more -/
theorem flush_spec (φ : Faults) (f : BFile) (h : f.Coherent) (k : Nat) :
    (f.flush φ k).1.Coherent ∧ (f.flush φ k).1.mem = f.mem ∧ (f.flush φ k).1.chunk = f.chunk ∧
    ((f.flush φ k).2.1 = true → (f.flush φ k).1.Durable ∧ (f.flush φ k).1.dirty = []) ∧
    ((f.flush φ k).2.1 = false → ∃ j, k ≤ j ∧ j < (f.flush φ k).2.2 ∧ φ.fails j = true) ∧
    ((∀ j, φ.fails j = false) → (f.flush φ k).2.1 = true) := by sorry

/-- an update keeps the buffer invariant and raises the dirty flag -/
theorem update_ok (m : MapBuf) (h : m.OK) (wv wk wh : List (Nat × List Nat)) :
    (m.update wv wk wh).OK ∧ (m.update wv wk wh).dirty = true := by sorry

/-- **C03.** Whenever flush / sync_all / sync_data returns Ok, every byte and the length of each of
the three files on disk equal what the map sees in memory — i.e. every preceding update is on disk —
whatever happened before (including earlier failed flushes), and the buffers are clean. -/
theorem C03_durable (φ : Faults) (kind : SyncKind) (m : MapBuf) (h : m.OK)
    (hok : (m.flushLike φ kind).2.1 = true) :
    (m.flushLike φ kind).1.Durable ∧ (m.flushLike φ kind).1.OK := by sorry

/-- a map that was only created (dirty flag raised by `open`, headers in the buffers) becomes a
valid image on disk with the first successful flush: same theorem, the memory view being the
rendered empty map -/
theorem C03_fresh (kind : SyncKind) (m : MapBuf) (h : m.OK) (hd : m.dirty = true) :
    (m.flushLike noFaults kind).2.1 = true ∧ (m.flushLike noFaults kind).1.Durable := by sorry

/-- sync_all / sync_data ask the operating system to sync each of the three files, each after
that file's own write-back, in the order value, key, table file -/
theorem C03_sync_events (φ : Faults) (kind : SyncKind) (m : MapBuf) (hd : m.dirty = true)
    (hok : (m.flushLike φ kind).2.1 = true) :
    (m.flushLike φ kind).2.2 = evs kind "val" ++ evs kind "key" ++ evs kind "htx" := by sorry

/-- **C16 (reported).** If the operating system refuses any write the call attempts, the call
returns Err: an Ok result means no attempted write was refused. -/
theorem C16_reported (φ : Faults) (kind : SyncKind) (m : MapBuf) (h : m.OK)
    (hfail : (m.flushLike φ kind).2.1 = false) : ∃ j, φ.fails j = true := by sorry

/-- **C16 (nothing lost).** A flush — failed or not — never changes what the map sees in memory -/
theorem C16_memory_intact (φ : Faults) (kind : SyncKind) (m : MapBuf) :
    (m.flushLike φ kind).1.val.mem = m.val.mem ∧ (m.flushLike φ kind).1.key.mem = m.key.mem ∧
    (m.flushLike φ kind).1.htx.mem = m.htx.mem := by sorry

/-- **C16 (recovery).** After a failed flush the buffers are still consistent and the dirty flag
is still raised, so once writes are accepted again a later flush returns Ok and makes everything
durable. -/
theorem C16_recovers (φ : Faults) (kind kind' : SyncKind) (m : MapBuf) (h : m.OK)
    (hfail : (m.flushLike φ kind).2.1 = false) :
    let m1 := (m.flushLike φ kind).1
    m1.OK ∧ m1.dirty = true ∧ (m1.flushLike noFaults kind').2.1 = true ∧
    (m1.flushLike noFaults kind').1.Durable ∧
    (m1.flushLike noFaults kind').1.val.mem = m.val.mem ∧
    (m1.flushLike noFaults kind').1.key.mem = m.key.mem ∧
    (m1.flushLike noFaults kind').1.htx.mem = m.htx.mem := by sorry

/-- without the dirty flag (the defect fixed by `fix: raise the dirty flag…`) the claim is false:
a map with pending writes whose flag is clear is not made durable. Kept as the refutation witness
of the unfixed behaviour. -/
example : ∃ m : MapBuf, m.dirty = false ∧ (m.flushLike noFaults .flush).2.1 = true ∧
    ¬ (m.flushLike noFaults .flush).1.val.Durable := by sorry

end Abyss.Buf
