import Abyss.Props.C05
import Abyss.Lemmas.AllocCount
/-!
# C06 — freed storage is reclaimed; slots tile the files; a file grows only when nothing fits
-/
namespace Abyss
open Store RecFile

/-- every slot of a well-formed record file is either a used record — and then on no free list —
or a free slot that is on exactly one free list (the one of its class) and on it exactly once -/
theorem C06_partition {α : Type} {c : FileCfg} {f : RecFile α} (hc : CfgOK c) (h : WF c f)
    (o : Nat) (sl : Slot α) (hg : f.get o = some sl) :
    (∃ sz p, sl = .used sz p ∧ ∀ i l, i < 16 → freeList f i = some l → o ∉ l) ∨
    (∃ sz nx, sl = .free sz nx ∧ headIdx c sz < 16 ∧
      (∃ l, freeList f (headIdx c sz) = some l ∧ l.count o = 1) ∧
      (∀ i l, i < 16 → i ≠ headIdx c sz → freeList f i = some l → o ∉ l)) := by
  cases sl with
  | used sz p =>
    left
    refine ⟨sz, p, rfl, ?_⟩
    intro i l hi hl hm
    obtain ⟨l', hl', _, hcl⟩ := h.lists i hi
    rw [hl] at hl'
    cases hl'
    obtain ⟨sz', nx, hg', _⟩ := hcl o hm
    rw [hg] at hg'
    cases hg'
  | free sz nx =>
    right
    refine ⟨sz, nx, rfl, hc.idx_lt sz, ?_, ?_⟩
    · obtain ⟨l, hl, hm⟩ := h.onlist o sz nx hg
      obtain ⟨l', hl', nd, _⟩ := h.lists _ (hc.idx_lt sz)
      rw [hl] at hl'
      cases hl'
      exact ⟨l, hl, List.count_eq_one_of_mem nd hm⟩
    · intro i l hi hne hl hm
      obtain ⟨l', hl', _, hcl⟩ := h.lists i hi
      rw [hl] at hl'
      cases hl'
      obtain ⟨sz', nx', hg', hi'⟩ := hcl o hm
      rw [hg] at hg'
      cases hg'
      exact hne hi'.symm

/-- the slots tile the file: each starts where the previous one ends, from the end of the header
to the end of the file, so there are neither gaps nor overlaps -/
theorem C06_tiling {α : Type} {c : FileCfg} {f : RecFile α} (h : WF c f) :
    Tiled f.slots c.headerSz f.end_ := h.tiled

theorem C06_no_overlap {α : Type} {c : FileCfg} {f : RecFile α} (hc : CfgOK c) (h : WF c f)
    (o o' : Nat) (s s' : Slot α) (h1 : f.get o = some s) (h2 : f.get o' = some s') (hlt : o < o') :
    o + s.size ≤ o' := by
  have _ := hc
  exact h.tiled.no_overlap h1 h2 hlt

/-- every used value record belongs to exactly one live entry, every used key record is one -/
theorem C06_owned {kt : KeyType} {s : Store} (h : Inv kt s) (vo vs : Nat) (v : List Nat)
    (hu : s.vf.used vo = some (vs, v)) :
    ∃ o sz r, s.kf.used o = some (sz, r) ∧ r.valOff = vo ∧
      ∀ o' sz' r', s.kf.used o' = some (sz', r') → r'.valOff = vo → o' = o := by
  obtain ⟨o, sz, r, hk, hv⟩ := h.val_owned vo vs v hu
  refine ⟨o, sz, r, hk, hv, ?_⟩
  intro o' sz' r' hk' hv'
  exact h.val_inj o' o sz' sz r' r hk' hk (hv'.trans hv.symm)

/-- a file is extended only when the free list of the requested class offers nothing that fits
(exact class for the small classes, first fit on the shared large list) -/
theorem C06_extend_only_if {α : Type} {c : FileCfg} {f f' : RecFile α} (hc : CfgOK c) (h : WF c f)
    {need off : Nat} (hn : LegalSz c need) {p : α} (hadd : addPiece c f need p = some (off, f'))
    (hext : f.end_ < f'.end_) :
    ∀ l, freeList f (headIdx c need) = some l → ∀ o ∈ l, ∀ sz nx, f.get o = some (.free sz nx) → sz < need :=
  addPiece_extends_only_if hc h hn hadd hext

/-- and otherwise a free slot is reused -/
theorem C06_reuse {α : Type} {c : FileCfg} {f f' : RecFile α} (hc : CfgOK c) (h : WF c f)
    {need off : Nat} (hn : LegalSz c need) {p : α} (hadd : addPiece c f need p = some (off, f'))
    (hsame : f'.end_ = f.end_) : ∃ sz nx, f.get off = some (.free sz nx) ∧ need ≤ sz :=
  addPiece_reuses hc h hn hadd hsame

/-- number of slots of size `sz` / of used slots of size `sz` -/
def slotsOfSize {α : Type} (f : RecFile α) (sz : Nat) : Nat := (f.slots.filter fun p => p.2.size = sz).length
def usedOfSize {α : Type} (f : RecFile α) (sz : Nat) : Nat :=
  (f.slots.filter fun p => match p.2 with | .used s _ => s = sz | _ => false).length

/-- the bound behind "file size is bounded by the live set, not by history", for the small
classes: an allocation never makes the number of slots of a size exceed the larger of what it was
and the number of slots of that size in use right after it. By induction over a history the
number of slots of each small size never exceeds the peak number simultaneously in use. -/
theorem C06_small_class_bound {α : Type} {c : FileCfg} {f f' : RecFile α} (hc : CfgOK c) (h : WF c f)
    {need off : Nat} (hn : LegalSz c need) (hsmall : Gen.isLargePieceSize c.sizeAry need = false) {p : α}
    (hadd : addPiece c f need p = some (off, f')) (sz : Nat) :
    slotsOfSize f' sz ≤ max (slotsOfSize f sz) (usedOfSize f' sz) := by
  have _ := hc
  have e1 : ∀ g : RecFile α, ∀ z, slotsOfSize g z = sizeCount g z := fun _ _ => rfl
  have e2 : ∀ g : RecFile α, ∀ z, usedOfSize g z = usedSizeCount g z := by
    intro g z
    unfold usedOfSize usedSizeCount
    congr 2
  rw [e1, e1, e2]
  rcases addPiece_small_count h hsmall hadd with ⟨a, b⟩ | a
  · by_cases hsz : sz = need
    · subst hsz
      rw [a]
      exact Nat.le_max_right _ _
    · rw [b sz hsz]
      exact Nat.le_max_left _ _
  · rw [a sz]
    exact Nat.le_max_left _ _

/-- freeing never adds a slot -/
theorem C06_delete_no_growth {α : Type} {c : FileCfg} {f f' : RecFile α} (hc : CfgOK c) (h : WF c f)
    {off sz0 : Nat} {p0 : α} (hu : f.used off = some (sz0, p0)) (hd : deletePiece c f off = some f') (sz : Nat) :
    slotsOfSize f' sz = slotsOfSize f sz ∧ f'.end_ = f.end_ := by
  have hg : f.get off = some (.used sz0 p0) := used_eq_some.mp hu
  unfold deletePiece at hd
  simp only [hg, Slot.size, Option.some.injEq] at hd
  subst hd
  exact ⟨sizeCount_pushFree hc h hg sz, (pushFree_spec hc h hg).2.2.2.2.2⟩

/-- the sequential slot walk of the statistics calls terminates and visits exactly the slots -/
theorem C06_walk_terminates {α : Type} {c : FileCfg} {f : RecFile α} (hc : CfgOK c) (h : WF c f) :
    walk c f = some f.slots := walk_spec hc h

/-- all of this holds after every history -/
theorem C06_reachable (kt : KeyType) (n : Nat) (hn : 0 < n) (ops : List Op) (hops : ∀ op ∈ ops, Op.OK kt op) :
    ∀ s' outs, (Store.init n).run kt ops = some (s', outs) → WF keyCfg s'.kf ∧ WF valCfg s'.vf := by
  intro s' outs hr
  have := C05_reachable kt n hn ops hops s' outs hr
  exact ⟨this.kwf, this.vwf⟩

end Abyss
