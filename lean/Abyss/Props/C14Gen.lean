import Abyss.Lemmas.ApiGenL
import Abyss.Lemmas.C14GenAux
import Abyss.Props.C14
import Abyss.Props.GenCorollaries
/-!
# C14 for the code as translated: the bulk wrappers of `lib.rs`

`Gen.apiBulkGet`, `apiBulkDelete`, `apiBulkPut`, `apiPutFromIter` are regenerated from the default
methods of `trait DbXxx<KT>` on every run; the sort they perform is a parameter of which only "returns
a permutation" is assumed, so the theorems hold for whatever order `sort_unstable_by` produces. They
are stated for ANY implementation of the four primitive calls that refines the ideal map (`Refines`),
and instantiated twice: with the hand model, and with the engine generated from `dbxxx.rs` on bytes.
-/
namespace Abyss
open Store

/-- an implementation of `get_kt / put_kt / del_kt / includes_key_kt` refines the ideal map on the
admissible keys `ok`, with `R` relating implementation states to ideal maps -/
structure Refines {σ : Type} (ops : KtOps σ) (R : σ → Spec.Map → Prop) (ok : List Nat → Prop) : Prop where
  get : ∀ {s m} k, R s m → ok k → ∃ s', ops.getKt k s = some (Spec.get m k, s') ∧ R s' m
  put : ∀ {s m} k v, R s m → ok k → ∃ s', ops.putKt k v s = some ((), s') ∧ R s' (Spec.put m k v)
  del : ∀ {s m} k, R s m → ok k → ∃ s', ops.delKt k s = some (Spec.get m k, s') ∧ R s' (Spec.del m k)
  inc : ∀ {s m} k, R s m → ok k → ∃ s', ops.includesKt k s = some (Spec.includes m k, s') ∧ R s' m

/-! ## the sequential loops under `Refines` -/

/-- the deletes in processing order, for a batch without repeated keys: every answer is `get` in the
ORIGINAL map (deleting other keys does not change it) -/
theorem delSeq_of_refines {σ : Type} {ops : KtOps σ} {R : σ → Spec.Map → Prop} {ok : List Nat → Prop}
    (h : Refines ops R ok) (l : List (Nat × List Nat)) :
    ∀ {s : σ} {m : Spec.Map}, (∀ p ∈ l, ok p.2) → (l.map (·.2)).Nodup → R s m →
      ∃ s', delSeq ops l s = some (l.map fun p => (p.1, Spec.get m p.2), s') ∧
        R s' ((l.map (·.2)).foldl Spec.del m) := by
  induction l with
  | nil => intro s m _ _ hR; exact ⟨s, rfl, hR⟩
  | cons ik rest ih =>
    intro s m hok hnd hR
    simp only [List.map_cons, List.nodup_cons] at hnd
    obtain ⟨s1, h1, hR1⟩ := h.del ik.2 hR (hok ik (List.mem_cons_self ..))
    obtain ⟨s2, h2, hR2⟩ := ih (fun p hp => hok p (List.mem_cons_of_mem _ hp)) hnd.2 hR1
    refine ⟨s2, ?_, hR2⟩
    have hm : (rest.map fun p => (p.1, Spec.get (Spec.del m ik.2) p.2))
        = rest.map fun p => (p.1, Spec.get m p.2) := by
      apply List.map_congr_left
      intro p hp
      have hne : p.2 ≠ ik.2 := fun e => hnd.1 (e ▸ List.mem_map.2 ⟨p, hp, rfl⟩)
      rw [Spec.get_del_ne _ _ _ hne]
    simp only [delSeq, Gen.apiDelete, bind, h1, h2, List.map_cons, hm]
    rfl

/-- the puts in processing order -/
theorem putSeq_of_refines {σ : Type} {ops : KtOps σ} {R : σ → Spec.Map → Prop} {ok : List Nat → Prop}
    (h : Refines ops R ok) (l : List (List Nat × List Nat)) :
    ∀ {s : σ} {m : Spec.Map}, (∀ p ∈ l, ok p.1) → R s m →
      ∃ s', putSeq ops l s = some ((), s') ∧ R s' (l.foldl (fun m p => Spec.put m p.1 p.2) m) := by
  induction l with
  | nil => intro s m _ hR; exact ⟨s, rfl, hR⟩
  | cons kv rest ih =>
    intro s m hok hR
    obtain ⟨s1, h1, hR1⟩ := h.put kv.1 kv.2 hR (hok kv (List.mem_cons_self ..))
    obtain ⟨s2, h2, hR2⟩ := ih (fun p hp => hok p (List.mem_cons_of_mem _ hp)) hR1
    refine ⟨s2, ?_, hR2⟩
    simp only [putSeq, Gen.apiPut, bind, h1, h2]

/-- the loop of `put_from_iter` -/
theorem putFromIterLoop_of_refines {σ : Type} {ops : KtOps σ} {R : σ → Spec.Map → Prop} {ok : List Nat → Prop}
    (h : Refines ops R ok) (l : List (List Nat × List Nat)) :
    ∀ {s : σ} {m : Spec.Map}, (∀ p ∈ l, ok p.1) → R s m →
      ∃ s', Gen.apiPutFromIterLoop ops l s = some ((), s') ∧
        R s' (l.foldl (fun m p => Spec.put m p.1 p.2) m) := by
  induction l with
  | nil => intro s m _ hR; exact ⟨s, rfl, hR⟩
  | cons kv rest ih =>
    intro s m hok hR
    obtain ⟨k, v⟩ := kv
    obtain ⟨s1, h1, hR1⟩ := h.put k v hR (hok (k, v) (List.mem_cons_self ..))
    obtain ⟨s2, h2, hR2⟩ := ih (fun p hp => hok p (List.mem_cons_of_mem _ hp)) hR1
    refine ⟨s2, ?_, hR2⟩
    simp only [Gen.apiPutFromIterLoop, bind, h1, h2]


/-- `bulk_get`: position `i` of the answer is what `get` of the `i`-th key returns; nothing changes -/
theorem C14_generated_bulk_get {σ : Type} {ops : KtOps σ} {R : σ → Spec.Map → Prop} {ok : List Nat → Prop}
    (h : Refines ops R ok) (sortDesc : List (Nat × List Nat) → List (Nat × List Nat))
    (hs : ∀ l, (sortDesc l).Perm l) (ks : List (List Nat)) (hks : ∀ k ∈ ks, ok k) {s : σ} {m : Spec.Map} (hR : R s m) :
    ∃ s', Gen.apiBulkGet ops sortDesc ks s = some (ks.map (Spec.get m), s') ∧ R s' m := by
  exact apiBulkGet_of_get ops (fun s => R s m) ok (Spec.get m) (fun _ k hR hk => h.get k hR hk)
    sortDesc hs ks hks s hR

/-- `bulk_delete` of a batch without repeated keys: position `i` is what `delete` of the `i`-th key
returns, and the map is left as by the individual deletes -/
theorem C14_generated_bulk_delete {σ : Type} {ops : KtOps σ} {R : σ → Spec.Map → Prop} {ok : List Nat → Prop}
    (h : Refines ops R ok) (hm : ∀ m, (∃ s, R s m) → Spec.NodupKeys m)
    (sortDesc : List (Nat × List Nat) → List (Nat × List Nat))
    (hs : ∀ l, (sortDesc l).Perm l) (ks : List (List Nat)) (hks : ∀ k ∈ ks, ok k) (hnd : ks.Nodup)
    {s : σ} {m : Spec.Map} (hR : R s m) :
    ∃ s' m', Gen.apiBulkDelete ops sortDesc ks s = some (ks.map (Spec.get m), s') ∧ R s' m' ∧
      Spec.Equiv m' (ks.foldl Spec.del m) := by
  have hp : (sortDesc (ApiM.enumerate ks)).reverse.Perm (ApiM.enumerate ks) :=
    (List.reverse_perm _).trans (hs _)
  have hpk : ((sortDesc (ApiM.enumerate ks)).reverse.map (·.2)).Perm ks := by
    have := hp.map (·.2)
    rwa [ApiM.enumerate_map_snd] at this
  have hok : ∀ p ∈ (sortDesc (ApiM.enumerate ks)).reverse, ok p.2 := fun p hpm =>
    hks _ (hpk.mem_iff.1 (List.mem_map.2 ⟨p, hpm, rfl⟩))
  obtain ⟨s', h1, hR'⟩ := delSeq_of_refines h _ hok (hpk.nodup_iff.2 hnd) hR
  refine ⟨s', _, ?_, hR', Spec.foldl_del_perm m (hm m ⟨s, hR⟩) hpk⟩
  rw [apiBulkDelete_eq, h1, Option.map_some, ApiM.sortByIdx_restore ks (Spec.get m) _ hp]

/-- `bulk_put` of a batch without repeated keys: the map is left as by the individual puts -/
theorem C14_generated_bulk_put {σ : Type} {ops : KtOps σ} {R : σ → Spec.Map → Prop} {ok : List Nat → Prop}
    (h : Refines ops R ok) (hm : ∀ m, (∃ s, R s m) → Spec.NodupKeys m)
    (sortDescPairs : List (List Nat × List Nat) → List (List Nat × List Nat))
    (hs : ∀ l, (sortDescPairs l).Perm l) (kvs : List (List Nat × List Nat)) (hks : ∀ p ∈ kvs, ok p.1)
    (hnd : (kvs.map Prod.fst).Nodup) {s : σ} {m : Spec.Map} (hR : R s m) :
    ∃ s' m', Gen.apiBulkPut ops sortDescPairs kvs s = some ((), s') ∧ R s' m' ∧
      Spec.Equiv m' (kvs.foldl (fun m p => Spec.put m p.1 p.2) m) := by
  have hp : (sortDescPairs kvs).reverse.Perm kvs := (List.reverse_perm _).trans (hs _)
  have hok : ∀ p ∈ (sortDescPairs kvs).reverse, ok p.1 := fun p hpm => hks p (hp.mem_iff.1 hpm)
  obtain ⟨s', h1, hR'⟩ := putSeq_of_refines h _ hok hR
  refine ⟨s', _, ?_, hR', Spec.foldl_put_perm m (hm m ⟨s, hR⟩) hnd hp⟩
  rw [apiBulkPut_eq, h1]

/-- `put_from_iter`: the pairs in iteration order (a later pair for the same key wins) -/
theorem C14_generated_put_from_iter {σ : Type} {ops : KtOps σ} {R : σ → Spec.Map → Prop} {ok : List Nat → Prop}
    (h : Refines ops R ok) (kvs : List (List Nat × List Nat)) (hks : ∀ p ∈ kvs, ok p.1)
    {s : σ} {m : Spec.Map} (hR : R s m) :
    ∃ s', Gen.apiPutFromIter ops kvs s = some ((), s') ∧ R s' (kvs.foldl (fun m p => Spec.put m p.1 p.2) m) := by
  obtain ⟨s', h1, hR'⟩ := putFromIterLoop_of_refines h kvs hks hR
  exact ⟨s', by rw [apiPutFromIter_eq, h1], hR'⟩

/-- the hand model refines the ideal map -/
def modelOps (kt : KeyType) : KtOps Store where
  getKt k s := (s.get kt k).map fun r => (r, s)
  putKt k v s := (s.put kt k v).map fun s' => ((), s')
  delKt k s := (s.del kt k).map fun r => (r.2, r.1)
  includesKt k s := (s.includes kt k).map fun r => (r, s)

theorem modelOps_refines (kt : KeyType) :
    Refines (modelOps kt) (fun s m => Inv kt s ∧ Spec.Equiv (abs s) m) (KeyOK kt) := by
  constructor
  · rintro s m k ⟨hi, he⟩ hk
    refine ⟨s, ?_, hi, he⟩
    simp only [modelOps, get_spec hi k hk, Option.map_some, he.2.2 k]
  · rintro s m k v ⟨hi, he⟩ hk
    obtain ⟨s', hp, hi', _, he'⟩ := put_spec hi k v hk
    refine ⟨s', ?_, hi', he'.trans (he.put k v)⟩
    simp only [modelOps, hp, Option.map_some]
  · rintro s m k ⟨hi, he⟩ hk
    obtain ⟨s', hp, hi', _, he'⟩ := del_spec hi k hk
    refine ⟨s', ?_, hi', he'.trans (he.del k)⟩
    simp only [modelOps, hp, Option.map_some, he.2.2 k]
  · rintro s m k ⟨hi, he⟩ hk
    refine ⟨s, ?_, hi, he⟩
    simp only [modelOps, includes_spec hi k hk, Option.map_some, Spec.includes, he.2.2 k]

/-- the engine generated from `dbxxx.rs`, on the bytes of the three files, for `get` / `includes` /
`delete` (calls that never lengthen a file) -/
def engineOps (kt : KeyType) (n : Nat) : KtOps DbSt where
  getKt k d := Gen.getKt n (cmpOf kt) (hashValue k) k d
  putKt k v d := Gen.putKt keyCfg valCfg n (cmpOf kt) (hashValue k) k v d
  delKt k d := Gen.delKt keyCfg valCfg n (cmpOf kt) (hashValue k) k d
  includesKt k d := Gen.includesKeyKt n (cmpOf kt) (hashValue k) k d

/-- `bulk_get` through the generated wrapper AND the generated engine, on bytes: element-wise `get`
of the ideal map, all three files untouched -/
theorem C14_generated_bulk_get_bytes {kt : KeyType} {s : Store} (g : Store.Regular kt s)
    (sortDesc : List (Nat × List Nat) → List (Nat × List Nat)) (hs : ∀ l, (sortDesc l).Perm l)
    (ks : List (List Nat)) (hks : ∀ k ∈ ks, KeyOK kt k) {d : DbSt} (hd : d.IsImage kt s) :
    ∃ d', Gen.apiBulkGet (engineOps kt s.n) sortDesc ks d = some (ks.map (Spec.get (abs s)), d') ∧
      d'.IsImage kt s := by
  refine apiBulkGet_of_get (engineOps kt s.n) (fun d => d.IsImage kt s) (KeyOK kt) (Spec.get (abs s)) ?_
    sortDesc hs ks hks d hd
  intro d k hd hk
  obtain ⟨r, d', hr, hd', hg⟩ := get_bytes g k hk hd
  rw [get_spec g.inv k hk] at hr
  cases hr
  exact ⟨d', hg, hd'⟩

end Abyss
