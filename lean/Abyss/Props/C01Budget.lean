import Abyss.Lemmas.BudgetAux
import Abyss.Props.GenCorollaries
/-!
# C01 for the translated code, with an arithmetic hypothesis instead of `FilesSmall`

`C01_generated_engine` (`Props/C01Gen`) assumes `FilesSmall`: the two record files of every
intermediate *model* state stay below 4 GiB. Here that hypothesis is replaced by two inequalities
about the history alone: a *budget*, the header plus a cost per call, stays below 4 GiB.

* the value file: only `put k v` can extend it, by one slot for `v`, at most `v.length + 138`
  bytes (length field ≤ 5, size field ≤ 5, `roundup` adds at most 128);
* the key file: `put` *and* `del` can extend it, and by more than one slot: a key record whose
  value record moved (`put` on an existing key) or whose successor was unlinked (`del`) is
  rewritten, may outgrow its slot and move to the end of the file; then its predecessor in the
  bucket chain is rewritten (`relink_moved_key_piece`), may move as well, and so on along the
  chain. So no function of one call alone bounds what that call adds to the key file. But a key
  record only ever moves to a strictly larger slot, and all the slot sizes a key of `L` bytes can
  ask for (`roundup (L + 4)` … `roundup (L + 28)`) are at most four consecutive legal sizes, each at
  most `L + 156`. So the `put` that creates the record is charged `4 * (L + 156)` once, for all the
  slots the record will ever have appended; `del`, `put` on an existing key and the read-only calls
  are charged nothing (`Lemmas/BudgetAux`: the potential `φK`).
-/
namespace Abyss
open Store RecFile Budget

/-- what a call may add to the length of the key file, amortised: a `put` pays for every slot that
will ever be appended for the key record it may create -/
def Op.keyCost : Op → Nat
  | .put k _ => 4 * (k.length + 156)
  | _ => 0

/-- what a call may add to the length of the value file -/
def Op.valCost : Op → Nat
  | .put _ v => v.length + 138
  | _ => 0

/-- bound for the length of the key file after the history `ops` on a fresh map -/
def budgetK (ops : List Op) : Nat := keyCfg.headerSz + (ops.map Op.keyCost).sum

/-- bound for the length of the value file after the history `ops` on a fresh map -/
def budgetV (ops : List Op) : Nat := valCfg.headerSz + (ops.map Op.valCost).sum

/-- one call: length + potential of each file grows by at most the cost of the call -/
theorem step_trans {kt : KeyType} {s s' : Store} {op : Op} {out : Out} (h : Inv kt s)
    (hop : Op.OK kt op) (hsm : op.Small) (hs : s.step kt op = some (s', out)) :
    Trans keyCfg φK s.kf s'.kf op.keyCost ∧ Trans valCfg (fun _ _ => 0) s.vf s'.vf op.valCost := by
  cases op with
  | put k v =>
    simp only [Store.step, Option.map_eq_some_iff] at hs
    obtain ⟨s2, hp, e⟩ := hs
    cases e
    exact put_trans h.kwf h.vwf hsm.1 hp
  | del k =>
    simp only [Store.step, Option.map_eq_some_iff] at hs
    obtain ⟨⟨s2, r⟩, hp, e⟩ := hs
    cases e
    exact del_trans h hop hp
  | get k =>
    simp only [Store.step, Option.map_eq_some_iff] at hs
    obtain ⟨_, _, e⟩ := hs
    cases e
    exact ⟨Trans.refl h.kwf, Trans.refl h.vwf⟩
  | includes k =>
    simp only [Store.step, Option.map_eq_some_iff] at hs
    obtain ⟨_, _, e⟩ := hs
    cases e
    exact ⟨Trans.refl h.kwf, Trans.refl h.vwf⟩
  | len =>
    simp only [Store.step, Option.some.injEq, Prod.mk.injEq] at hs
    obtain ⟨e, _⟩ := hs
    subst e
    exact ⟨Trans.refl h.kwf, Trans.refl h.vwf⟩
  | isEmpty =>
    simp only [Store.step, Option.some.injEq, Prod.mk.injEq] at hs
    obtain ⟨e, _⟩ := hs
    subst e
    exact ⟨Trans.refl h.kwf, Trans.refl h.vwf⟩

/-- a history: the costs add up -/
theorem run_trans {kt : KeyType} (ops : List Op) : ∀ {s : Store} (_ : Inv kt s)
    (_ : ∀ op ∈ ops, Op.OK kt op ∧ op.Small) (t : Store) (outs : List Out),
    s.run kt ops = some (t, outs) →
    Trans keyCfg φK s.kf t.kf (ops.map Op.keyCost).sum ∧
    Trans valCfg (fun _ _ => 0) s.vf t.vf (ops.map Op.valCost).sum := by
  induction ops with
  | nil =>
    intro s h _ t outs hr
    simp only [Store.run, Option.some.injEq, Prod.mk.injEq] at hr
    obtain ⟨e, _⟩ := hr
    subst e
    exact ⟨Trans.refl h.kwf, Trans.refl h.vwf⟩
  | cons op ops ih =>
    intro s h hops t outs hr
    have hop := hops op List.mem_cons_self
    obtain ⟨s1, h1, hi1, _, _⟩ := step_refines h op hop.1
    simp only [Store.run, h1] at hr
    split at hr
    · cases hr
    · next s2 os hr2 =>
      cases hr
      obtain ⟨k1, v1⟩ := step_trans h hop.1 hop.2 h1
      obtain ⟨k2, v2⟩ := ih hi1 (fun o ho => hops o (List.mem_cons_of_mem _ ho)) _ _ hr2
      simp only [List.map_cons, List.sum_cons]
      exact ⟨k1.trans k2, v1.trans v2⟩

/-- the files of a fresh map after a history are no longer than the budgets -/
theorem end_le_budget (kt : KeyType) (n : Nat) (hn : 0 < n) (ops : List Op)
    (hops : ∀ op ∈ ops, Op.OK kt op ∧ op.Small) (t : Store) (outs : List Out)
    (hr : (Store.init n).run kt ops = some (t, outs)) :
    t.kf.end_ ≤ budgetK ops ∧ t.vf.end_ ≤ budgetV ops := by
  obtain ⟨hinv, _⟩ := init_inv kt n hn
  obtain ⟨tk, tv⟩ := run_trans ops hinv hops t outs hr
  have ek := tk.energy _ (Nat.le_refl _)
  have ev := tv.energy _ (Nat.le_refl _)
  have pk : pot φK (Store.init n).kf t.kf.end_ = 0 := pot_empty φK keyCfg _
  have pv : pot (fun (_ : Nat) (_ : List Nat) => 0) (Store.init n).vf t.vf.end_ = 0 := pot_zero _ _
  have e1 : (Store.init n).kf.end_ = keyCfg.headerSz := rfl
  have e2 : (Store.init n).vf.end_ = valCfg.headerSz := rfl
  rw [pk, e1] at ek
  rw [pv, e2] at ev
  unfold budgetK budgetV
  omega

theorem budgetK_prefix {pre ops : List Op} (h : pre <+: ops) : budgetK pre ≤ budgetK ops := by
  obtain ⟨r, rfl⟩ := h
  simp only [budgetK, List.map_append, List.sum_append]
  omega

theorem budgetV_prefix {pre ops : List Op} (h : pre <+: ops) : budgetV pre ≤ budgetV ops := by
  obtain ⟨r, rfl⟩ := h
  simp only [budgetV, List.map_append, List.sum_append]
  omega

/-- **the budget implies `FilesSmall`**: if header + the costs of all calls stays below 4 GiB for
both files, every intermediate model state has both record files below 4 GiB -/
theorem FilesSmall_of_budget (kt : KeyType) (n : Nat) (hn : 0 < n) (ops : List Op)
    (hops : ∀ op ∈ ops, Op.OK kt op ∧ op.Small) (hk : budgetK ops < 2^32) (hv : budgetV ops < 2^32) :
    FilesSmall kt (Store.init n) ops := by
  intro pre hpre t outs hr
  have hops' : ∀ op ∈ pre, Op.OK kt op ∧ op.Small := fun o ho => hops o (hpre.subset ho)
  obtain ⟨a, b⟩ := end_le_budget kt n hn pre hops' t outs hr
  have := budgetK_prefix hpre
  have := budgetV_prefix hpre
  omega

/-- **C01 for the translated code, hypotheses on the history only.** -/
theorem C01_generated_budget (kt : KeyType) (n : Nat) (hn : 0 < n) (hn2 : n < 2^60) (ops : List Op)
    (hops : ∀ op ∈ ops, Op.OK kt op ∧ op.Small) (hk : budgetK ops < 2^32) (hv : budgetV ops < 2^32) :
    ∃ d', genRun kt n (imageSt kt (Store.init n) 0 0 0) ops = some ((Spec.run [] ops).2, d') ∧
      ∃ s', (Store.init n).run kt ops = some (s', (Spec.run [] ops).2) ∧ d'.IsImage kt s' :=
  C01_generated_engine kt n hn hn2 ops hops (FilesSmall_of_budget kt n hn ops hops hk hv)

/-- **C01, from an empty directory, hypotheses on the history only.** -/
theorem C01_generated_from_empty_budget (kt : KeyType) (p : Gen.HashBucketsParam) (n : Nat)
    (hp : Gen.bucketsOf p = some n) (hn : 0 < n) (hn2 : n < 2^60) (ops : List Op)
    (hops : ∀ op ∈ ops, Op.OK kt op ∧ op.Small) (hk : budgetK ops < 2^32) (hv : budgetV ops < 2^32) :
    ∃ d0 d' s', Gen.openMap kt.sig p ⟨⟨[], 0⟩, ⟨[], 0⟩, ⟨[], 0⟩⟩ = some (n, d0) ∧
      genRun kt n d0 ops = some ((Spec.run [] ops).2, d') ∧
      (Store.init n).run kt ops = some (s', (Spec.run [] ops).2) ∧ d'.IsImage kt s' ∧ Store.Regular kt s' :=
  C01_generated_from_empty kt p n hp hn hn2 ops hops (FilesSmall_of_budget kt n hn ops hops hk hv)

/-! ## non-vacuity -/

/-- a small history: three inserts, an overwrite with a longer value (the value record moves, the
key record is rewritten), a lookup, a delete, a lookup of the deleted key, the count -/
def budgetExample : List Op :=
  [.put [1, 2, 3] [10, 20], .put [4, 5] [7], .put [9] [],
   .put [1, 2, 3] [1, 2, 3, 4, 5, 6, 7, 8, 9, 10, 11, 12, 13, 14, 15, 16, 17, 18, 19, 20],
   .get [1, 2, 3], .del [4, 5], .includes [4, 5], .len]

example : budgetK budgetExample = 192 + 4 * (159 + 158 + 157 + 159) := by decide
example : budgetV budgetExample = 192 + (140 + 139 + 138 + 158) := by decide

/-- the history satisfies every hypothesis of `C01_generated_budget` for byte-string keys -/
theorem budgetExample_ok :
    (∀ op ∈ budgetExample, Op.OK .bytes op ∧ op.Small) ∧
    budgetK budgetExample < 2^32 ∧ budgetV budgetExample < 2^32 := by
  refine ⟨?_, by decide, by decide⟩
  intro op hop
  simp only [budgetExample, List.mem_cons, List.not_mem_nil, or_false] at hop
  rcases hop with rfl | rfl | rfl | rfl | rfl | rfl | rfl | rfl <;>
    exact ⟨by simp [Op.OK, Store.KeyOK], by simp [Op.Small]⟩

/-- hence the conclusion of the headline theorem holds for it -/
example : ∃ d', genRun .bytes 8 (imageSt .bytes (Store.init 8) 0 0 0) budgetExample =
      some ((Spec.run [] budgetExample).2, d') ∧
    ∃ s', (Store.init 8).run .bytes budgetExample = some (s', (Spec.run [] budgetExample).2) ∧
      d'.IsImage .bytes s' :=
  C01_generated_budget .bytes 8 (by decide) (by decide) budgetExample budgetExample_ok.1
    budgetExample_ok.2.1 budgetExample_ok.2.2

end Abyss
