import Abyss.Stats
import Abyss.Lemmas.StatsL
import Abyss.Props.C06
/-!
# C17 — the storage statistics calls report the true structure
-/
namespace Abyss
open Store RecFile

/-- histogram of a list of numbers, as the sorted vector `touch` builds -/
def histOf (l : List Nat) : List (Nat × Nat) := l.foldl touch []

/-- `touch` keeps the vector sorted by its first component without duplicates, and counts
occurrences: the count of `x` in `histOf l` is the number of occurrences of `x` in `l` -/
theorem histOf_count (l : List Nat) (x : Nat) :
    ((histOf l).find? (·.1 = x)).map (·.2) = if l.count x = 0 then none else some (l.count x) := by
  have h := foldl_touch_get l [] x (by simp [HistSorted])
  simpa [histOf, histGet] using h

theorem histOf_sorted (l : List Nat) : (histOf l).map (·.1) |>.Pairwise (· < ·) := by
  exact foldl_touch_sorted l [] (by simp [HistSorted])

/-- free-slot counts: for every class the reported number is the length of that class's free
list; the call terminates -/
theorem C17_free_counts {α : Type} {c : FileCfg} {f : RecFile α} (hc : CfgOK c) (h : WF c f) (sizes : List Nat) :
    ∃ r, Store.countFreeList c f sizes = some r ∧ r.map (·.1) = sizes ∧
      ∀ p ∈ r, ∃ l, freeList f (headIdx c p.1) = some l ∧ p.2 = l.length := by
  induction sizes with
  | nil => exact ⟨[], rfl, rfl, by simp⟩
  | cons sz rest ih =>
    obtain ⟨r, hr, hm, hp⟩ := ih
    obtain ⟨l, hl, hcnt⟩ := RecFile.countFree_spec hc h sz
    refine ⟨(sz, l.length) :: r, by simp [Store.countFreeList, hcnt, hr], by simp [hm], ?_⟩
    intro p hpm
    rcases List.mem_cons.mp hpm with rfl | hpm
    · exact ⟨l, hl, rfl⟩
    · exact hp p hpm

/-- key / value piece-size and length statistics: the walk terminates and the result is the
histogram over exactly the used slots with a non-empty key (value) — free slots and empty
payloads have length 0 and are not counted -/
theorem C17_key_stats {kt : KeyType} {s : Store} (h : Inv kt s) :
    s.keyPieceSizeStats = some (histOf ((s.kf.slots.filter fun p => keyLenOf p.2 ≠ 0).map fun p => p.2.size)) ∧
    s.keyLengthStats = some (histOf ((s.kf.slots.filter fun p => keyLenOf p.2 ≠ 0).map fun p => keyLenOf p.2)) := by
  have hw := RecFile.walk_spec keyCfg_ok h.kwf
  constructor
  · simp only [keyPieceSizeStats, hw, Option.map_some, histOf]
    exact congrArg some (foldl_cond_touch (fun p : Nat × Slot KeyRec => keyLenOf p.2 ≠ 0) (fun p => p.2.size) _ [])
  · simp only [keyLengthStats, hw, Option.map_some, histOf]
    exact congrArg some (foldl_cond_touch (fun p : Nat × Slot KeyRec => keyLenOf p.2 ≠ 0) (fun p => keyLenOf p.2) _ [])

theorem C17_value_stats {kt : KeyType} {s : Store} (h : Inv kt s) :
    s.valuePieceSizeStats = some (histOf ((s.vf.slots.filter fun p => valLenOf p.2 ≠ 0).map fun p => p.2.size)) ∧
    s.valueLengthStats = some (histOf ((s.vf.slots.filter fun p => valLenOf p.2 ≠ 0).map fun p => valLenOf p.2)) := by
  have hw := RecFile.walk_spec valCfg_ok h.vwf
  constructor
  · simp only [valuePieceSizeStats, hw, Option.map_some, histOf]
    exact congrArg some (foldl_cond_touch (fun p : Nat × Slot (List Nat) => valLenOf p.2 ≠ 0) (fun p => p.2.size) _ [])
  · simp only [valueLengthStats, hw, Option.map_some, histOf]
    exact congrArg some (foldl_cond_touch (fun p : Nat × Slot (List Nat) => valLenOf p.2 ≠ 0) (fun p => valLenOf p.2) _ [])

/-- the slots counted are exactly the live entries with a non-empty key: a slot of the key file
has a non-zero key length iff it is a used record whose key is not empty -/
theorem C17_counted_are_live (sl : Slot KeyRec) :
    keyLenOf sl ≠ 0 ↔ ∃ sz r, sl = .used sz r ∧ r.key ≠ [] := by
  cases sl with
  | used sz r =>
    simp [keyLenOf]
  | free sz nx =>
    simp [keyLenOf]

/-- the bucket filling figure is the number of non-empty buckets, and the per-mille figure is
`count * 1000 / n` -/
theorem C17_fill (s : Store) :
    s.htxFillingRate = (((List.range s.n).filter fun i => s.headOf i ≠ 0).length,
      ((List.range s.n).filter fun i => s.headOf i ≠ 0).length * 1000 / s.n) := by
  rfl

end Abyss
