import Abyss.Props.RaBufP
/-!
# The three buffered files of a map over the chunk-level `rabuf` model

`FileDbXxxInner::{flush, sync_all, sync_data}`: only if the map's dirty flag is set; value file,
key file, table file in that order, `?` after each; the flag is cleared only after all three
succeeded (src/filedb/inner/dbxxx.rs). Same shape as `Buf.MapBuf.flushLike`, but each file is a
`RaBuf.St` (chunks, capacity, eviction) instead of the abstract cache.
-/
namespace Abyss.RaBuf

structure MapRb where
  val : St
  key : St
  htx : St
  dirty : Bool

/-- a file whose disk image is its logical content -/
def Durable (s : St) : Prop := s.disk = s.logical

def MapRb.flushLike (φ : Faults) (m : MapRb) (k : Nat) : MapRb × Nat × Bool :=
  if !m.dirty then (m, k, true) else
  let rv := flush φ m.val k
  if !rv.2.2 then ({ m with val := rv.1 }, rv.2.1, false) else
  let rk := flush φ m.key rv.2.1
  if !rk.2.2 then ({ m with val := rv.1, key := rk.1 }, rk.2.1, false) else
  let rh := flush φ m.htx rk.2.1
  if !rh.2.2 then ({ val := rv.1, key := rk.1, htx := rh.1, dirty := true }, rh.2.1, false) else
  ({ val := rv.1, key := rk.1, htx := rh.1, dirty := false }, rh.2.1, true)

/-- the invariant of a map's buffers: each file regular, and a clear flag means all three durable -/
def MapRb.OK (m : MapRb) : Prop :=
  Inv m.val ∧ Inv m.key ∧ Inv m.htx ∧ (m.dirty = false → Durable m.val ∧ Durable m.key ∧ Durable m.htx)

/-- the logical contents of the three files -/
def MapRb.view (m : MapRb) : List Nat × List Nat × List Nat := (m.val.logical, m.key.logical, m.htx.logical)

theorem flush_durable (φ : Faults) {s : St} (k : Nat) (h : Inv s) (hok : (flush φ s k).2.2 = true) :
    Durable (flush φ s k).1 := by
  obtain ⟨_, hs, _, _, hd⟩ := flush_spec φ k h
  unfold Durable
  rw [(hd hok).1, hs.logical]

/-- **C03, map level over the chunk model**: whenever flush / sync_all / sync_data returns `Ok`,
the three disk images are the three logical contents, and the buffers are regular again -/
theorem C03_map_durable (φ : Faults) (m : MapRb) (k : Nat) (h : m.OK) (hok : (m.flushLike φ k).2.2 = true) :
    Durable (m.flushLike φ k).1.val ∧ Durable (m.flushLike φ k).1.key ∧ Durable (m.flushLike φ k).1.htx ∧
    (m.flushLike φ k).1.view = m.view ∧ (m.flushLike φ k).1.OK := by
  obtain ⟨hv, hk, hh, hd⟩ := h
  unfold MapRb.flushLike at hok ⊢
  by_cases d : m.dirty = true
  · simp only [d, Bool.not_true, Bool.false_eq_true, if_false] at hok ⊢
    by_cases ov : (flush φ m.val k).2.2 = true
    · simp only [ov, Bool.not_true, Bool.false_eq_true, if_false] at hok ⊢
      by_cases ok : (flush φ m.key (flush φ m.val k).2.1).2.2 = true
      · simp only [ok, Bool.not_true, Bool.false_eq_true, if_false] at hok ⊢
        by_cases oh : (flush φ m.htx (flush φ m.key (flush φ m.val k).2.1).2.1).2.2 = true
        · simp only [oh, Bool.not_true, Bool.false_eq_true, if_false] at hok ⊢
          have sv := flush_spec φ k hv
          have sk := flush_spec φ (flush φ m.val k).2.1 hk
          have sh := flush_spec φ (flush φ m.key (flush φ m.val k).2.1).2.1 hh
          have dv := flush_durable φ k hv ov
          have dk := flush_durable φ _ hk ok
          have dh := flush_durable φ _ hh oh
          refine ⟨dv, dk, dh, ?_, sv.1, sk.1, sh.1, fun _ => ⟨dv, dk, dh⟩⟩
          simp only [MapRb.view, sv.2.1.logical, sk.2.1.logical, sh.2.1.logical]
        · simp [oh] at hok
      · simp [ok] at hok
    · simp [ov] at hok
  · have d' : m.dirty = false := by simpa using d
    simp only [d', Bool.not_false, if_true]
    obtain ⟨a, b, c⟩ := hd d'
    exact ⟨a, b, c, trivial, hv, hk, hh, fun _ => ⟨a, b, c⟩⟩

theorem flushLike_noFaults_ok (m : MapRb) (k : Nat) (h : m.OK) : (m.flushLike noFaults k).2.2 = true := by
  obtain ⟨hv, hk, hh, _⟩ := h
  unfold MapRb.flushLike
  by_cases d : m.dirty = true
  · have ov := flush_noFaults_ok k hv
    have ok := flush_noFaults_ok (flush noFaults m.val k).2.1 hk
    have oh := flush_noFaults_ok (flush noFaults m.key (flush noFaults m.val k).2.1).2.1 hh
    simp only [d, ov, ok, oh, Bool.not_true, Bool.false_eq_true, if_false]
  · have d' : m.dirty = false := by simpa using d
    simp only [d', Bool.not_false, if_true]

theorem flushLike_keeps (φ : Faults) (m : MapRb) (k : Nat) (h : m.OK) :
    (m.flushLike φ k).1.OK ∧ (m.flushLike φ k).1.view = m.view ∧
    ((m.flushLike φ k).2.2 = false → (m.flushLike φ k).1.dirty = true) := by
  obtain ⟨hv, hk, hh, hd⟩ := h
  have sv := flush_spec φ k hv
  have sk := flush_spec φ (flush φ m.val k).2.1 hk
  have sh := flush_spec φ (flush φ m.key (flush φ m.val k).2.1).2.1 hh
  unfold MapRb.flushLike
  by_cases d : m.dirty = true
  · simp only [d, Bool.not_true, Bool.false_eq_true, if_false]
    by_cases ov : (flush φ m.val k).2.2 = true
    · simp only [ov, Bool.not_true, Bool.false_eq_true, if_false]
      by_cases ok : (flush φ m.key (flush φ m.val k).2.1).2.2 = true
      · simp only [ok, Bool.not_true, Bool.false_eq_true, if_false]
        by_cases oh : (flush φ m.htx (flush φ m.key (flush φ m.val k).2.1).2.1).2.2 = true
        · simp only [oh, Bool.not_true, Bool.false_eq_true, if_false]
          have dv := flush_durable φ k hv ov
          have dk := flush_durable φ _ hk ok
          have dh := flush_durable φ _ hh oh
          refine ⟨⟨sv.1, sk.1, sh.1, fun _ => ⟨dv, dk, dh⟩⟩, ?_, fun c => by simp at c⟩
          simp only [MapRb.view, sv.2.1.logical, sk.2.1.logical, sh.2.1.logical]
        · have oh' : (flush φ m.htx (flush φ m.key (flush φ m.val k).2.1).2.1).2.2 = false := by simpa using oh
          simp only [oh', Bool.not_false, if_true]
          refine ⟨⟨sv.1, sk.1, sh.1, fun c => by simp at c⟩, ?_, by simp⟩
          simp only [MapRb.view, sv.2.1.logical, sk.2.1.logical, sh.2.1.logical]
      · have ok' : (flush φ m.key (flush φ m.val k).2.1).2.2 = false := by simpa using ok
        simp only [ok', Bool.not_false, if_true]
        refine ⟨⟨sv.1, sk.1, hh, fun c => by simp at c⟩, ?_, by simp⟩
        simp only [MapRb.view, sv.2.1.logical, sk.2.1.logical]
    · have ov' : (flush φ m.val k).2.2 = false := by simpa using ov
      simp only [ov', Bool.not_false, if_true]
      refine ⟨⟨sv.1, hk, hh, fun c => by simp at c⟩, ?_, by simp⟩
      simp only [MapRb.view, sv.2.1.logical]
  · have d' : m.dirty = false := by simpa using d
    simp only [d', Bool.not_false, if_true]
    exact ⟨⟨hv, hk, hh, hd⟩, trivial, fun c => by simp at c⟩

/-- **C16, map level over the chunk model**: whatever writes are refused, the call keeps all three
logical contents and regular buffers; if it fails the flag stays set, so the next call tries again;
and a call without refusals then makes all three files durable -/
theorem C16_map_faults (φ : Faults) (m : MapRb) (k : Nat) (h : m.OK) :
    (m.flushLike φ k).1.OK ∧ (m.flushLike φ k).1.view = m.view ∧
    ((m.flushLike φ k).2.2 = false → (m.flushLike φ k).1.dirty = true) ∧
    (let m1 := (m.flushLike φ k).1
     let r := m1.flushLike noFaults (m.flushLike φ k).2.1
     r.2.2 = true ∧ Durable r.1.val ∧ Durable r.1.key ∧ Durable r.1.htx ∧ r.1.view = m.view) := by
  obtain ⟨h1, hview, hflag⟩ := flushLike_keeps φ m k h
  refine ⟨h1, hview, hflag, ?_⟩
  have hok := flushLike_noFaults_ok (m.flushLike φ k).1 (m.flushLike φ k).2.1 h1
  obtain ⟨a, b, c, e, _⟩ := C03_map_durable noFaults _ _ h1 hok
  exact ⟨hok, a, b, c, e.trans hview⟩

end Abyss.RaBuf
