import Abyss.Props.GenCorollaries
import Abyss.Props.C18
import Abyss.Props.C07
import Abyss.Props.C06Bound
import Abyss.Props.C17
/-!
# More properties of the translated code, end to end

C18 (the files are a function of the update history), C07 (the table size never changes an
answer), C06 (file lengths bounded by the live set) and C17 (the statistics calls report the true
structure), each stated about the engine *generated from the Rust source* (`genRun`, the generated
statistics functions) acting on the bytes of a freshly created map.
-/
namespace Abyss
open Store RecFile

/-! ## the common first step -/

/-- a history on a freshly created map, with everything the refinement theorems give: the
generated engine succeeds with the ideal answers, the model run succeeds with the same answers, the
final bytes are the rendered image of the final model state, which is in the regular regime, has
the table size `n`, and holds the contents of the ideal map -/
theorem genRun_from_init (kt : KeyType) (n : Nat) (hn : 0 < n) (hn2 : n < 2^60) (ops : List Op)
    (hops : ∀ op ∈ ops, Op.OK kt op ∧ op.Small) (hfs : FilesSmall kt (Store.init n) ops) :
    ∃ s' d', (Store.init n).run kt ops = some (s', (Spec.run [] ops).2) ∧
      genRun kt n (imageSt kt (Store.init n) 0 0 0) ops = some ((Spec.run [] ops).2, d') ∧
      d'.IsImage kt s' ∧ Store.Regular kt s' ∧ s'.n = n ∧ Spec.Equiv (abs s') (Spec.run [] ops).1 := by
  have g0 : Store.Regular kt (Store.init n) := init_regular kt n hn hn2
  have hd0 : (imageSt kt (Store.init n) 0 0 0).IsImage kt (Store.init n) := ⟨rfl, rfl, rfl⟩
  obtain ⟨s', outs, d', hrun, hgen, hd', g'⟩ := genRun_refines ops g0 hops hfs hd0
  obtain ⟨s2, h2, _, hn2', he2⟩ := init_run_refines kt n hn ops (fun o ho => (hops o ho).1)
  rw [hrun] at h2
  simp only [Option.some.injEq, Prod.mk.injEq] at h2
  obtain ⟨rfl, rfl⟩ := h2
  exact ⟨s', d', hrun, hgen, hd', g', hn2', he2⟩

/-! ## C18 — the files are a function of the update history -/

/-- a prefix of the filtered list is the filtered image of a prefix of the list -/
theorem prefix_filter_exists {α : Type} (p : α → Bool) : ∀ (l pre' : List α), pre' <+: l.filter p →
    ∃ pre, pre <+: l ∧ pre.filter p = pre' := by
  intro l
  induction l with
  | nil =>
    intro pre' h
    have : pre' = [] := by simpa using h
    subst this
    exact ⟨[], List.prefix_refl _, rfl⟩
  | cons a l ih =>
    intro pre' h
    cases hp : p a with
    | false =>
      rw [List.filter_cons_of_neg (by simp [hp])] at h
      obtain ⟨pre, h1, h2⟩ := ih pre' h
      refine ⟨a :: pre, ?_, ?_⟩
      · obtain ⟨r, rfl⟩ := h1
        exact ⟨r, by simp⟩
      · rw [List.filter_cons_of_neg (by simp [hp])]
        exact h2
    | true =>
      rw [List.filter_cons_of_pos hp] at h
      cases pre' with
      | nil => exact ⟨[], List.nil_prefix, rfl⟩
      | cons b q =>
        obtain ⟨r, hr⟩ := h
        simp only [List.cons_append, List.cons.injEq] at hr
        obtain ⟨rfl, hr⟩ := hr
        obtain ⟨pre, h1, h2⟩ := ih q ⟨r, hr⟩
        refine ⟨b :: pre, ?_, ?_⟩
        · obtain ⟨r', rfl⟩ := h1
          exact ⟨r', by simp⟩
        · rw [List.filter_cons_of_pos hp, h2]

/-- if the files stay below 4 GiB along a history (of admissible calls, from a fresh map), they
also do along the history with its read-only calls erased: the model states met are the same -/
theorem FilesSmall.filter_isUpdate {kt : KeyType} {n : Nat} (hn : 0 < n) {ops : List Op}
    (hops : ∀ op ∈ ops, Op.OK kt op) (hfs : FilesSmall kt (Store.init n) ops) :
    FilesSmall kt (Store.init n) (ops.filter Op.isUpdate) := by
  intro pre' hpre' t outs hr
  obtain ⟨pre, hpre, rfl⟩ := prefix_filter_exists Op.isUpdate ops pre' hpre'
  have hokpre : ∀ op ∈ pre, Op.OK kt op := fun o ho => hops o (hpre.subset ho)
  obtain ⟨s1, h1, _⟩ := C01_history kt n hn pre hokpre
  obtain ⟨outs', h2⟩ := C18_readonly_erasure kt pre _ _ _ h1
  rw [hr] at h2
  simp only [Option.some.injEq, Prod.mk.injEq] at h2
  obtain ⟨rfl, _⟩ := h2
  exact hfs pre hpre t _ h1

/-- **C18 for the translated code**: two histories with the same updates (in the same order), run
by the generated engine on the bytes of a map freshly created with the same table size, both
succeed and leave byte-identical files — whatever read-only calls are interleaved -/
theorem C18_generated_same_updates_same_files (kt : KeyType) (n : Nat) (hn : 0 < n) (hn2 : n < 2^60)
    (ops1 ops2 : List Op) (hsame : ops1.filter Op.isUpdate = ops2.filter Op.isUpdate)
    (hops1 : ∀ op ∈ ops1, Op.OK kt op ∧ op.Small) (hfs1 : FilesSmall kt (Store.init n) ops1)
    (hops2 : ∀ op ∈ ops2, Op.OK kt op ∧ op.Small) (hfs2 : FilesSmall kt (Store.init n) ops2) :
    ∃ d1' d2', genRun kt n (imageSt kt (Store.init n) 0 0 0) ops1 = some ((Spec.run [] ops1).2, d1') ∧
      genRun kt n (imageSt kt (Store.init n) 0 0 0) ops2 = some ((Spec.run [] ops2).2, d2') ∧
      d1'.htx.bytes = d2'.htx.bytes ∧ d1'.key.bytes = d2'.key.bytes ∧ d1'.val.bytes = d2'.val.bytes := by
  obtain ⟨s1, d1, hr1, hg1, hi1, _⟩ := genRun_from_init kt n hn hn2 ops1 hops1 hfs1
  obtain ⟨s2, d2, hr2, hg2, hi2, _⟩ := genRun_from_init kt n hn hn2 ops2 hops2 hfs2
  have he : render kt s1 = render kt s2 := C18_same_updates_same_files kt n ops1 ops2 hsame s1 s2 _ _ hr1 hr2
  obtain ⟨a1, b1, c1⟩ := hi1
  obtain ⟨a2, b2, c2⟩ := hi2
  refine ⟨d1, d2, hg1, hg2, ?_, ?_, ?_⟩
  · rw [a1, a2, he]
  · rw [b1, b2, he]
  · rw [c1, c2, he]

/-- **C18, read-only erasure, for the translated code**: erasing the read-only calls (`get`,
`includes_key`, `len`, `is_empty`) from a history changes no byte of what the generated engine
leaves in the three files. (That the erased history also keeps the files below 4 GiB is derived,
not assumed.) -/
theorem C18_generated_readonly_erasure (kt : KeyType) (n : Nat) (hn : 0 < n) (hn2 : n < 2^60)
    (ops : List Op) (hops : ∀ op ∈ ops, Op.OK kt op ∧ op.Small) (hfs : FilesSmall kt (Store.init n) ops) :
    ∃ d1' d2', genRun kt n (imageSt kt (Store.init n) 0 0 0) ops = some ((Spec.run [] ops).2, d1') ∧
      genRun kt n (imageSt kt (Store.init n) 0 0 0) (ops.filter Op.isUpdate) =
        some ((Spec.run [] (ops.filter Op.isUpdate)).2, d2') ∧
      d1'.htx.bytes = d2'.htx.bytes ∧ d1'.key.bytes = d2'.key.bytes ∧ d1'.val.bytes = d2'.val.bytes := by
  have hops' : ∀ op ∈ ops.filter Op.isUpdate, Op.OK kt op ∧ op.Small :=
    fun o ho => hops o (List.mem_filter.mp ho).1
  have hfs' : FilesSmall kt (Store.init n) (ops.filter Op.isUpdate) :=
    FilesSmall.filter_isUpdate hn (fun o ho => (hops o ho).1) hfs
  exact C18_generated_same_updates_same_files kt n hn hn2 ops (ops.filter Op.isUpdate)
    (by rw [List.filter_filter]; simp) hops hfs hops' hfs'

/-! ## C07 — the table size never changes an answer -/

/-- **C07 for the translated code**: the same history run by the generated engine on maps created
with two different table sizes succeeds on both and returns the same answers (those of the ideal
map, which has no table size) -/
theorem C07_generated_bucket_independent (kt : KeyType) (n m : Nat) (hn : 0 < n) (hn2 : n < 2^60)
    (hm : 0 < m) (hm2 : m < 2^60) (ops : List Op) (hops : ∀ op ∈ ops, Op.OK kt op ∧ op.Small)
    (hfsn : FilesSmall kt (Store.init n) ops) (hfsm : FilesSmall kt (Store.init m) ops) :
    ∃ outs dn dm, genRun kt n (imageSt kt (Store.init n) 0 0 0) ops = some (outs, dn) ∧
      genRun kt m (imageSt kt (Store.init m) 0 0 0) ops = some (outs, dm) ∧
      outs = (Spec.run [] ops).2 := by
  obtain ⟨dn, h1, _⟩ := C01_generated_engine kt n hn hn2 ops hops hfsn
  obtain ⟨dm, h2, _⟩ := C01_generated_engine kt m hm hm2 ops hops hfsm
  exact ⟨_, dn, dm, h1, h2, rfl⟩

/-! ## C06 — file lengths bounded by the live set -/

/-- **C06 (per slot size) for the translated code**: whatever the generated engine returns for a
history on a fresh map, the bytes left are the image of a model state in which no slot size occurs
more often than the largest number of entries the ideal map held along the history, and the lengths
of the two record files are exactly the ends of that state's record files -/
theorem C06_generated_slots_bounded (kt : KeyType) (n : Nat) (hn : 0 < n) (hn2 : n < 2^60) (ops : List Op)
    (hops : ∀ op ∈ ops, Op.OK kt op ∧ op.Small) (hfs : FilesSmall kt (Store.init n) ops)
    (outs : List Out) (d' : DbSt)
    (hgen : genRun kt n (imageSt kt (Store.init n) 0 0 0) ops = some (outs, d')) :
    ∃ s', (Store.init n).run kt ops = some (s', outs) ∧ d'.IsImage kt s' ∧
      d'.key.bytes.length = s'.kf.end_ ∧ d'.val.bytes.length = s'.vf.end_ ∧
      ∀ sz, slotsOfSize s'.kf sz ≤ Spec.peak [] ops ∧ slotsOfSize s'.vf sz ≤ Spec.peak [] ops := by
  obtain ⟨s', d1, hrun, hg, hi, g', _, _⟩ := genRun_from_init kt n hn hn2 ops hops hfs
  rw [hg] at hgen
  simp only [Option.some.injEq, Prod.mk.injEq] at hgen
  obtain ⟨rfl, rfl⟩ := hgen
  exact ⟨s', hrun, hi, hi.key_length g', hi.val_length g',
    fun sz => C06_bounded_by_live_set kt n hn ops (fun o ho => (hops o ho).1) s' _ hrun sz⟩

/-- **C06 (file lengths) for the translated code**: after any history run by the generated engine
on a fresh map, the byte lengths of the key file and of the value file are at most
`header + peak × (sum of the distinct slot sizes present)`, where `peak` is the largest number of
entries the ideal map held along the history — a bound that does not depend on the number of
operations. The lists of slot sizes are those of the model state `s'` whose image the bytes are. -/
theorem C06_generated_file_length_bounded (kt : KeyType) (n : Nat) (hn : 0 < n) (hn2 : n < 2^60) (ops : List Op)
    (hops : ∀ op ∈ ops, Op.OK kt op ∧ op.Small) (hfs : FilesSmall kt (Store.init n) ops)
    (outs : List Out) (d' : DbSt)
    (hgen : genRun kt n (imageSt kt (Store.init n) 0 0 0) ops = some (outs, d')) :
    ∃ s', (Store.init n).run kt ops = some (s', outs) ∧ d'.IsImage kt s' ∧
      ∀ (ksizes vsizes : List Nat), ksizes.Nodup → vsizes.Nodup →
        (∀ p ∈ s'.kf.slots, p.2.size ∈ ksizes) → (∀ p ∈ s'.vf.slots, p.2.size ∈ vsizes) →
        d'.key.bytes.length ≤ keyCfg.headerSz + Spec.peak [] ops * ksizes.sum ∧
        d'.val.bytes.length ≤ valCfg.headerSz + Spec.peak [] ops * vsizes.sum := by
  obtain ⟨s', hrun, hi, hk, hv, _⟩ := C06_generated_slots_bounded kt n hn hn2 ops hops hfs outs d' hgen
  refine ⟨s', hrun, hi, ?_⟩
  intro ksizes vsizes hkn hvn hks hvs
  rw [hk, hv]
  exact C06_file_length_bounded kt n hn ops (fun o ho => (hops o ho).1) s' outs hrun ksizes vsizes hkn hvn hks hvs

/-! ## C17 — the statistics calls report the true structure -/

/-- the generated statistics functions on the image of any model state in the regular regime:
each call succeeds, leaves the image (no byte changes), and returns

* free counts: one pair per size class of the configuration, in order, whose second component is
  the length of that class's free list;
* the four histograms: the histogram (`histOf`) of the slot sizes / of the payload lengths over
  exactly the slots with a non-empty key (value);
* the filling rate: the number of non-empty buckets, and that number per mille of the table size -/
theorem C17_generated_stats_of_image {kt : KeyType} {s : Store} (g : Store.Regular kt s) {d : DbSt}
    (hd : d.IsImage kt s) :
    (∃ r d', Gen.countOfFreeKeyPiece keyCfg d = some (r, d') ∧ d'.IsImage kt s ∧
      r.map (·.1) = keyCfg.sizeAry ∧
      ∀ p ∈ r, ∃ l, freeList s.kf (headIdx keyCfg p.1) = some l ∧ p.2 = l.length) ∧
    (∃ r d', Gen.countOfFreeValuePiece valCfg d = some (r, d') ∧ d'.IsImage kt s ∧
      r.map (·.1) = valCfg.sizeAry ∧
      ∀ p ∈ r, ∃ l, freeList s.vf (headIdx valCfg p.1) = some l ∧ p.2 = l.length) ∧
    (∃ d', Gen.keyPieceSizeStats d =
        some (histOf ((s.kf.slots.filter fun p => keyLenOf p.2 ≠ 0).map fun p => p.2.size), d') ∧
      d'.IsImage kt s) ∧
    (∃ d', Gen.keyLengthStats d =
        some (histOf ((s.kf.slots.filter fun p => keyLenOf p.2 ≠ 0).map fun p => keyLenOf p.2), d') ∧
      d'.IsImage kt s) ∧
    (∃ d', Gen.valuePieceSizeStats d =
        some (histOf ((s.vf.slots.filter fun p => valLenOf p.2 ≠ 0).map fun p => p.2.size), d') ∧
      d'.IsImage kt s) ∧
    (∃ d', Gen.valueLengthStats d =
        some (histOf ((s.vf.slots.filter fun p => valLenOf p.2 ≠ 0).map fun p => valLenOf p.2), d') ∧
      d'.IsImage kt s) ∧
    (∃ d', Gen.htxFillingRatePerMill s.n d =
        some ((((List.range s.n).filter fun i => s.headOf i ≠ 0).length,
          ((List.range s.n).filter fun i => s.headOf i ≠ 0).length * 1000 / s.n), d') ∧
      d'.IsImage kt s) := by
  obtain ⟨⟨rk, dk, hrk, hik, hgk⟩, ⟨rv, dv, hrv, hiv, hgv⟩⟩ := freeCounts_bytes g hd
  obtain ⟨⟨r1, d1, hr1, hi1, hg1⟩, ⟨r2, d2, hr2, hi2, hg2⟩, ⟨r3, d3, hr3, hi3, hg3⟩, ⟨r4, d4, hr4, hi4, hg4⟩⟩ :=
    sizeStats_bytes g hd
  obtain ⟨d5, hi5, hg5⟩ := fillingRate_bytes g hd
  obtain ⟨ck, hck, hmk, hpk⟩ := C17_free_counts keyCfg_ok g.inv.kwf keyCfg.sizeAry
  obtain ⟨cv, hcv, hmv, hpv⟩ := C17_free_counts valCfg_ok g.inv.vwf valCfg.sizeAry
  obtain ⟨hks, hkl⟩ := C17_key_stats g.inv
  obtain ⟨hvs, hvl⟩ := C17_value_stats g.inv
  have ek : rk = ck := by
    have : s.countOfFreeKeyPiece = some ck := hck
    rw [hrk] at this
    exact Option.some.inj this
  have ev : rv = cv := by
    have : s.countOfFreeValuePiece = some cv := hcv
    rw [hrv] at this
    exact Option.some.inj this
  subst ek
  subst ev
  rw [hks] at hr1
  rw [hvs] at hr2
  rw [hkl] at hr3
  rw [hvl] at hr4
  cases hr1
  cases hr2
  cases hr3
  cases hr4
  rw [C17_fill] at hg5
  exact ⟨⟨_, dk, hgk, hik, hmk, hpk⟩, ⟨_, dv, hgv, hiv, hmv, hpv⟩, ⟨d1, hg1, hi1⟩, ⟨d3, hg3, hi3⟩,
    ⟨d2, hg2, hi2⟩, ⟨d4, hg4, hi4⟩, ⟨d5, hg5, hi5⟩⟩

/-- **C17 for the translated code**: after any history run by the generated engine on a fresh map,
the final bytes `d'` are the image of the model's final state `s'`, and the *generated* statistics
functions run on `d'` all succeed, change no byte, and report the true structure of `s'`:
the length of each size class's free list (key file, value file), the histograms of slot sizes and
of payload lengths over exactly the records with a non-empty key (value), the number of non-empty
buckets and that number per mille of the table size -/
theorem C17_generated_stats (kt : KeyType) (n : Nat) (hn : 0 < n) (hn2 : n < 2^60) (ops : List Op)
    (hops : ∀ op ∈ ops, Op.OK kt op ∧ op.Small) (hfs : FilesSmall kt (Store.init n) ops) :
    ∃ d' s', genRun kt n (imageSt kt (Store.init n) 0 0 0) ops = some ((Spec.run [] ops).2, d') ∧
      (Store.init n).run kt ops = some (s', (Spec.run [] ops).2) ∧ d'.IsImage kt s' ∧
      (∃ r d'', Gen.countOfFreeKeyPiece keyCfg d' = some (r, d'') ∧ d''.IsImage kt s' ∧
        r.map (·.1) = keyCfg.sizeAry ∧
        ∀ p ∈ r, ∃ l, freeList s'.kf (headIdx keyCfg p.1) = some l ∧ p.2 = l.length) ∧
      (∃ r d'', Gen.countOfFreeValuePiece valCfg d' = some (r, d'') ∧ d''.IsImage kt s' ∧
        r.map (·.1) = valCfg.sizeAry ∧
        ∀ p ∈ r, ∃ l, freeList s'.vf (headIdx valCfg p.1) = some l ∧ p.2 = l.length) ∧
      (∃ d'', Gen.keyPieceSizeStats d' =
          some (histOf ((s'.kf.slots.filter fun p => keyLenOf p.2 ≠ 0).map fun p => p.2.size), d'') ∧
        d''.IsImage kt s') ∧
      (∃ d'', Gen.keyLengthStats d' =
          some (histOf ((s'.kf.slots.filter fun p => keyLenOf p.2 ≠ 0).map fun p => keyLenOf p.2), d'') ∧
        d''.IsImage kt s') ∧
      (∃ d'', Gen.valuePieceSizeStats d' =
          some (histOf ((s'.vf.slots.filter fun p => valLenOf p.2 ≠ 0).map fun p => p.2.size), d'') ∧
        d''.IsImage kt s') ∧
      (∃ d'', Gen.valueLengthStats d' =
          some (histOf ((s'.vf.slots.filter fun p => valLenOf p.2 ≠ 0).map fun p => valLenOf p.2), d'') ∧
        d''.IsImage kt s') ∧
      (∃ d'', Gen.htxFillingRatePerMill n d' =
          some ((((List.range n).filter fun i => s'.headOf i ≠ 0).length,
            ((List.range n).filter fun i => s'.headOf i ≠ 0).length * 1000 / n), d'') ∧
        d''.IsImage kt s') := by
  obtain ⟨s', d', hrun, hg, hi, g', hn', _⟩ := genRun_from_init kt n hn hn2 ops hops hfs
  have h := C17_generated_stats_of_image g' hi
  rw [hn'] at h
  exact ⟨d', s', hg, hrun, hi, h⟩

end Abyss
