import Abyss.Open
import Abyss.Lemmas.OpenL
import Abyss.Props.C02
/-!
# C13 — opening files as the wrong key type or with foreign signatures is refused

`openAccepts` (Abyss/Open.lean) mirrors the three header checks.  The theorems are about the
*regenerated* signatures.  `DbU64` and `DbVu64` declare the same type signature (`u64_le`): for
that pair the full statement is false of the code as it is (`C13_collision`, a known finding);
`C13_wrong_type` is the theorem for all other pairs.
-/
namespace Abyss

/-- the type signatures are pairwise distinct, except `u64` / `vu64` -/
theorem C13_types_distinct (a b : KeyType) (hab : a ≠ b)
    (hcol : ¬ ((a = .u64 ∧ b = .vu64) ∨ (a = .vu64 ∧ b = .u64))) : a.sig ≠ b.sig := by
  cases a <;> cases b <;> first
    | exact absurd rfl hab
    | exact absurd (Or.inl ⟨rfl, rfl⟩) hcol
    | exact absurd (Or.inr ⟨rfl, rfl⟩) hcol
    | decide

/-- the known finding: these two key types are not told apart by the files -/
theorem C13_collision : KeyType.u64.sig = KeyType.vu64.sig := by decide

/-- full statement refuted for that pair: files of a `u64` map are accepted as a `vu64` map -/
theorem C13_full_statement_refuted :
    ¬ (∀ (a b : KeyType), a ≠ b → ∀ s : Store, openAccepts b (render a s) = false) := by
  intro h
  have h1 := h .u64 .vu64 (by decide) (Store.init 1)
  have h2 : render .u64 (Store.init 1) = render .vu64 (Store.init 1) := rfl
  have h3 : openAccepts .vu64 (render .vu64 (Store.init 1)) = true := by
    unfold openAccepts render renderKeyFile renderValFile
    rw [show Gen.keySig1 = keyCfg.sig1 from rfl, show Gen.valSig1 = valCfg.sig1 from rfl,
      recHeaderAccepts_render _ _ _ _ rfl (by decide), recHeaderAccepts_render _ _ _ _ rfl (by decide),
      htxHeaderAccepts_render _ _ (by decide) (by decide)]
    rfl
  rw [h2, h3] at h1
  cases h1

/-- files created for key type `a` are refused when opened as any other key type `b`
(outside the colliding pair) -/
theorem C13_wrong_type_partial (a b : KeyType) (hab : a ≠ b)
    (hcol : ¬ ((a = .u64 ∧ b = .vu64) ∨ (a = .vu64 ∧ b = .u64))) (s : Store) :
    openAccepts b (render a s) = false := by
  have hs : a.sig ≠ b.sig := C13_types_distinct a b hab hcol
  have hk : recHeaderAccepts Gen.keySig1 b (render a s).key = false := by
    cases h : recHeaderAccepts Gen.keySig1 b (render a s).key with
    | false => rfl
    | true =>
      exfalso
      simp only [recHeaderAccepts, Bool.and_eq_true, beq_iff_eq] at h
      have h2 := h.1.2
      simp only [render, renderKeyFile] at h2
      rw [renderRecHeader_drop_take _ _ _ _ rfl a.sig_length] at h2
      exact hs h2
  simp [openAccepts, hk]

/-- files are accepted as their own type (as long as the table has at least one bucket) -/
theorem C13_own_type (a : KeyType) (s : Store) (hn : 0 < s.n) (hn2 : s.n < 2^64) :
    openAccepts a (render a s) = true := by
  unfold openAccepts render renderKeyFile renderValFile
  rw [show Gen.keySig1 = keyCfg.sig1 from rfl, show Gen.valSig1 = valCfg.sig1 from rfl,
    recHeaderAccepts_render _ _ _ _ rfl (by decide), recHeaderAccepts_render _ _ _ _ rfl (by decide),
    htxHeaderAccepts_render _ _ hn hn2]
  rfl

/-- any change of any of the 16 signature bytes of any of the three files is refused -/
theorem C13_mutation (a : KeyType) (s : Store) (f : WhichFile) (pos b : Nat) (hpos : pos < 16)
    (hb : b ≠ (match f with
                | .htx => (render a s).htx
                | .key => (render a s).key
                | .val => (render a s).val).getD pos 0) :
    openAccepts a ((render a s).mutate f pos b) = false := by
  cases f with
  | htx =>
    have : htxHeaderAccepts a ((render a s).htx.set pos b) = false :=
      htxHeaderAccepts_set a _ (renderHtxFile_take _ _) (renderHtxFile_drop_take _ _ a.sig_length)
        pos b hpos hb
    simp [openAccepts, Image.mutate, mutateByte, this]
  | key =>
    have : recHeaderAccepts Gen.keySig1 a ((render a s).key.set pos b) = false :=
      recHeaderAccepts_set _ a _ (renderRecHeader_take keyCfg _ _ _ rfl)
        (renderRecHeader_drop_take keyCfg _ _ _ rfl a.sig_length) rfl pos b hpos hb
    simp [openAccepts, Image.mutate, mutateByte, this]
  | val =>
    have : recHeaderAccepts Gen.valSig1 a ((render a s).val.set pos b) = false :=
      recHeaderAccepts_set _ a _ (renderRecHeader_take valCfg _ _ _ rfl)
        (renderRecHeader_drop_take valCfg _ _ _ rfl a.sig_length) rfl pos b hpos hb
    simp [openAccepts, Image.mutate, mutateByte, this]

end Abyss
