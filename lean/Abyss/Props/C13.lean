import Abyss.Open
import Abyss.Props.C02
/-!
# C13 — opening files as the wrong key type or with foreign signatures is refused

`openAccepts` (Abyss/Open.lean) mirrors the three header checks.  The theorems are about the
*regenerated* signatures.  `DbU64` and `DbVu64` declare the same type signature (`u64_le`): for
that pair the full statement is false of the code as it is (`C13_collision`, a known finding);
`C13_wrong_type` is the theorem for all other pairs.
-/
namespace Abyss

/-- the type signatures are pairwise distinct, except `u64` / `vu64` -/
theorem C13_types_distinct (a b : KeyType) (hab : a ≠ b)
    (hcol : ¬ ((a = .u64 ∧ b = .vu64) ∨ (a = .vu64 ∧ b = .u64))) : a.sig ≠ b.sig := by
  sorry

/-- the known finding: these two key types are not told apart by the files -/
theorem C13_collision : KeyType.u64.sig = KeyType.vu64.sig := by decide

/-- full statement refuted for that pair: files of a `u64` map are accepted as a `vu64` map -/
theorem C13_full_statement_refuted :
    ¬ (∀ (a b : KeyType), a ≠ b → ∀ s : Store, openAccepts b (render a s) = false) := by
  sorry

/-- files created for key type `a` are refused when opened as any other key type `b`
(outside the colliding pair) -/
theorem C13_wrong_type_partial (a b : KeyType) (hab : a ≠ b)
    (hcol : ¬ ((a = .u64 ∧ b = .vu64) ∨ (a = .vu64 ∧ b = .u64))) (s : Store) :
    openAccepts b (render a s) = false := by
  sorry

/-- files are accepted as their own type (as long as the table has at least one bucket) -/
theorem C13_own_type (a : KeyType) (s : Store) (hn : 0 < s.n) (hn2 : s.n < 2^64) :
    openAccepts a (render a s) = true := by
  sorry

/-- any change of any of the 16 signature bytes of any of the three files is refused -/
theorem C13_mutation (a : KeyType) (s : Store) (f : WhichFile) (pos b : Nat) (hpos : pos < 16)
    (hb : b ≠ (match f with
                | .htx => (render a s).htx
                | .key => (render a s).key
                | .val => (render a s).val).getD pos 0) :
    openAccepts a ((render a s).mutate f pos b) = false := by
  sorry

end Abyss
