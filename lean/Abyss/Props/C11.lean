import Abyss.Db
import Abyss.Lemmas.DbL
import Abyss.Props.C01
/-!
# C11 — named maps are isolated; handles to the same map alias one state

In the model a handle to a map *is* its name (every clone / repeated lookup / lookup through a
cloned database handle denotes `db.get name`), so aliasing holds by construction; that the Rust
handle graph (`Rc<RefCell<…>>`, five per-type registries) realises this is observed by the tie
(scenario `multi`), not proved.  What is proved: operations on one name leave every other map —
contents, length, and rendered files — untouched, and distinct names never share a file.
-/
namespace Abyss
open Db

/-- a call on map `name` leaves every other map of the directory exactly as it was -/
theorem C11_frame (db db' : Db) (name name' : List Char) (op : Op) (o : Out)
    (h : Db.step db name op = some (db', o)) (hne : name' ≠ name) : db'.get name' = db.get name' := by
  unfold Db.step at h
  cases hg : db.get name with
  | none => simp [hg] at h
  | some m =>
    simp only [hg, Option.map_eq_some_iff] at h
    obtain ⟨r, _, hr⟩ := h
    have : db' = db.set name { m with store := r.1 } := (congrArg Prod.fst hr).symm
    rw [this, Db.get_set_ne _ _ _ _ hne]

/-- … in particular its contents, its length and its three files -/
theorem C11_frame_files (db db' : Db) (name name' : List Char) (op : Op) (o : Out)
    (h : Db.step db name op = some (db', o)) (hne : name' ≠ name) (m : DbMap) (hm : db.get name' = some m) :
    db'.get name' = some m ∧ (∀ m', db'.get name' = some m' → render m'.kt m'.store = render m.kt m.store) := by
  have hf := C11_frame db db' name name' op o h hne
  refine ⟨by rw [hf, hm], fun m' hm' => ?_⟩
  rw [hf, hm] at hm'
  cases hm'
  rfl

/-- the call acts on the addressed map exactly like a call on a single map (so all single-map
theorems apply to it) -/
theorem C11_step_local (db : Db) (name : List Char) (op : Op) (m : DbMap) (hm : db.get name = some m)
    (s' : Store) (o : Out) (hs : m.store.step m.kt op = some (s', o)) :
    ∃ db', Db.step db name op = some (db', o) ∧ db'.get name = some { m with store := s' } := by
  refine ⟨db.set name { m with store := s' }, ?_, Db.get_set_eq _ _ _⟩
  simp [Db.step, hm, hs]

/-- opening another map (creating it) does not touch existing maps either -/
theorem C11_open_frame (db db' : Db) (kt : KeyType) (name name' : List Char) (n : Nat)
    (h : Db.openMap db kt name n = some db') (hne : name' ≠ name) : db'.get name' = db.get name' := by
  unfold Db.openMap at h
  cases hg : db.get name with
  | none =>
    simp only [hg, Option.some.injEq] at h
    rw [← h, Db.get_set_ne _ _ _ _ hne]
  | some m =>
    simp only [hg] at h
    split at h
    · cases h; rfl
    · cases h

/-- re-opening an existing name with the same key type gives the same map (a second handle) -/
theorem C11_reopen_same (db : Db) (name : List Char) (m : DbMap) (hm : db.get name = some m) (n : Nat) :
    Db.openMap db m.kt name n = some db := by
  simp [Db.openMap, hm]

/-- distinct map names never share a file: `<name>.<ext>` determines name and extension
(extensions `key`, `val`, `htx` contain no dot) -/
theorem C11_fileName_inj (n n' e e' : List Char) (he : e ∈ Db.exts) (he' : e' ∈ Db.exts)
    (h : Db.fileName n e = Db.fileName n' e') : n = n' ∧ e = e' := by
  unfold Db.fileName at h
  have h1 := Db.exts_length e he
  have h2 := Db.exts_length e' he'
  obtain ⟨hn, hE⟩ := List.append_inj' h (by simp [h1, h2])
  exact ⟨hn, (List.cons.inj hE).2⟩

end Abyss
