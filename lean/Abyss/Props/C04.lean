import Abyss.Lemmas.ScanL
import Abyss.Lemmas.IterL
import Abyss.Props.C01
/-!
# C04 — iteration yields each live entry exactly once, with exact size hints

`Store.iterAll` is the model of `DbXxxIterMut` run to exhaustion (`Abyss/Scan.lean`); the five
iterator flavours of the crate are this one state machine (`iter`, `iter_mut`, `into_iter`) or its
image under `Prod.fst` / `Prod.snd` (`keys`, `values`).
-/
namespace Abyss
open Store

/-- the scan finds the first non-empty bucket at or after `idx`, for every table size and every
occupancy pattern consistent with the bitmap (see `Abyss/Lemmas/ScanL.lean`) -/
theorem C04_scan (bit : Nat → Bool) (head : Nat → Nat) (n idx : Nat) (hidx : idx < n)
    (hb : ∀ i, i < n → (bit i = true ↔ head i ≠ 0)) (hb2 : ∀ i, n ≤ i → bit i = false) :
    nextKeyPieceOffset bit head n idx =
      match firstNonEmpty head idx n with
      | some j => (j + 1, head j)
      | none => (n, 0) :=
  nextKeyPieceOffset_spec bit head n idx hidx hb hb2

/-- `k` further calls all return `none` -/
def Store.iterStays (s : Store) : Nat → IterState → Prop
  | 0, _ => True
  | k+1, it => ∃ it', s.iterNext it = some (it', none) ∧ Store.iterStays s k it'

/-- **C04.** On any state satisfying the invariant (hence after any history, for any table size),
a full traversal terminates and yields exactly the entries of the map — every live key once, paired
with its current value, nothing else; the size hint before the `i`-th call is `len - i`; and
afterwards the iterator keeps returning `none`. -/
theorem C04_iter {kt : KeyType} {s : Store} (h : Inv kt s) :
    ∃ kvs hints itEnd, s.iterAll = some (kvs, hints, itEnd) ∧
      kvs.Perm (abs s) ∧ (kvs.map Prod.fst).Nodup ∧ kvs.length = s.count ∧
      hints = (List.range (s.count + 1)).map (fun i => s.count - i) ∧
      (∀ k, s.iterStays k itEnd) := by
  have hstay : ∀ k it, At s it [] s.n → s.iterStays k it := by
    intro k
    induction k with
    | zero => intro _ _; trivial
    | succ k ih =>
      intro it hat
      obtain ⟨it', h1, h2⟩ := iterNext_end (good_of_inv h) it hat
      exact ⟨it', h1, ih it' h2⟩
  obtain ⟨itEnd, hall, hend⟩ := iterAll_spec h
  refine ⟨_, _, itEnd, hall, restFrom_zero_perm h, restFrom_zero_keys_nodup h, ?_, rfl,
    fun k => hstay k itEnd hend⟩
  rw [List.length_map, restFrom_zero_length h]

/-- `keys()` and `values()` are the projections of the same traversal -/
theorem C04_keys_values {kt : KeyType} {s : Store} (h : Inv kt s) :
    ∃ kvs hints itEnd, s.iterAll = some (kvs, hints, itEnd) ∧
      (kvs.map Prod.fst).Perm ((abs s).map Prod.fst) ∧ (kvs.map Prod.snd).Perm ((abs s).map Prod.snd) := by
  obtain ⟨kvs, hints, itEnd, h1, h2, _⟩ := C04_iter h
  exact ⟨kvs, hints, itEnd, h1, h2.map _, h2.map _⟩

/-- non-vacuity / regression witness of the defect fixed by `fix: bitmap scan …`: a table of
128 buckets with bucket 119 occupied is traversed correctly -/
example : nextKeyPieceOffset (fun i => i = 5 ∨ i = 119) (fun i => if i = 5 ∨ i = 119 then 192 + i else 0) 128 120
    = (128, 0) := by decide

end Abyss
