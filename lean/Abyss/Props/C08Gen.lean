import Abyss.Props.C01Budget
import Abyss.Lemmas.SpecL
/-!
# C08 for the translated code

`C08_update_local` / `C08_delete_local` (`Props/C08`) are about the hand model. Here the same is
stated about the engine *generated from the Rust source*, end to end: after any history on a freshly
created map, an overwrite / insert / delete of one key — whatever records it relocates and whatever
chains it relinks inside the generated `put_kt` / `del_kt` — is invisible to a lookup of every other
key through the generated `get_kt`, and a lookup of the key itself sees exactly the new state.
Hypotheses are on the history alone (the arithmetic budget of `C01Budget`).
-/
namespace Abyss
open Store

namespace Spec
theorem run_append (m : Map) (a b : List Op) :
    run m (a ++ b) = ((run (run m a).1 b).1, (run m a).2 ++ (run (run m a).1 b).2) := by
  induction a generalizing m with
  | nil => simp [run]
  | cons op a ih =>
    simp only [List.cons_append, run]
    rw [ih]
end Spec

/-- **C08 (overwrite / insert) for the translated code**: the history `ops`, then `put k v`, then a
lookup of `k'` — run by the generated engine on the bytes of a fresh map — succeeds; the lookup
returns `v` for `k' = k` and, for every other key, exactly what a lookup of `k'` returns when the
`put` is left out. -/
theorem C08_generated_update_local (kt : KeyType) (n : Nat) (hn : 0 < n) (hn2 : n < 2^60) (ops : List Op)
    (k v k' : List Nat)
    (hops : ∀ op ∈ ops ++ [.put k v, .get k'], Op.OK kt op ∧ op.Small)
    (hk : budgetK (ops ++ [.put k v, .get k']) < 2^32) (hv : budgetV (ops ++ [.put k v, .get k']) < 2^32) :
    ∃ d1 d2 r1 r2,
      genRun kt n (imageSt kt (Store.init n) 0 0 0) (ops ++ [.get k']) =
        some ((Spec.run [] ops).2 ++ [.val r1], d1) ∧
      genRun kt n (imageSt kt (Store.init n) 0 0 0) (ops ++ [.put k v, .get k']) =
        some ((Spec.run [] ops).2 ++ [.unit, .val r2], d2) ∧
      (k' = k → r2 = some v) ∧ (k' ≠ k → r2 = r1) := by
  have hops1 : ∀ op ∈ ops ++ [.get k'], Op.OK kt op ∧ op.Small := by
    intro op ho
    rcases List.mem_append.mp ho with h | h
    · exact hops op (List.mem_append_left _ h)
    · refine hops op (List.mem_append_right _ ?_)
      simp only [List.mem_cons, List.not_mem_nil, or_false] at h ⊢
      exact Or.inr h
  have hk1 : budgetK (ops ++ [.get k']) < 2^32 := by
    have : budgetK (ops ++ [.get k']) ≤ budgetK (ops ++ [.put k v, .get k']) := by
      simp only [budgetK, List.map_append, List.sum_append, List.map_cons, List.map_nil, List.sum_cons,
        List.sum_nil, Op.keyCost]
      omega
    omega
  have hv1 : budgetV (ops ++ [.get k']) < 2^32 := by
    have : budgetV (ops ++ [.get k']) ≤ budgetV (ops ++ [.put k v, .get k']) := by
      simp only [budgetV, List.map_append, List.sum_append, List.map_cons, List.map_nil, List.sum_cons,
        List.sum_nil, Op.valCost]
      omega
    omega
  obtain ⟨d1, h1, _⟩ := C01_generated_budget kt n hn hn2 _ hops1 hk1 hv1
  obtain ⟨d2, h2, _⟩ := C01_generated_budget kt n hn hn2 _ hops hk hv
  rw [Spec.run_append] at h1 h2
  refine ⟨d1, d2, Spec.get (Spec.run [] ops).1 k', Spec.get (Spec.put (Spec.run [] ops).1 k v) k', ?_, ?_, ?_, ?_⟩
  · simpa [Spec.run, Spec.step] using h1
  · simpa [Spec.run, Spec.step] using h2
  · intro e; subst e; exact Spec.get_put_self _ _ _
  · intro hne; exact Spec.get_put_ne _ _ _ _ hne

/-- **C08 (delete) for the translated code**: the history `ops`, then `delete k`, then a lookup of
`k'`: the delete returns the value `k` had, the lookup returns nothing for `k' = k` and, for every
other key, exactly what a lookup of `k'` returns when the delete is left out. -/
theorem C08_generated_delete_local (kt : KeyType) (n : Nat) (hn : 0 < n) (hn2 : n < 2^60) (ops : List Op)
    (k k' : List Nat)
    (hops : ∀ op ∈ ops ++ [.del k, .get k'], Op.OK kt op ∧ op.Small)
    (hk : budgetK ops < 2^32) (hv : budgetV ops < 2^32) :
    ∃ d1 d2 r1 r2,
      genRun kt n (imageSt kt (Store.init n) 0 0 0) (ops ++ [.get k']) =
        some ((Spec.run [] ops).2 ++ [.val r1], d1) ∧
      genRun kt n (imageSt kt (Store.init n) 0 0 0) (ops ++ [.del k, .get k']) =
        some ((Spec.run [] ops).2 ++ [.val (Spec.get (Spec.run [] ops).1 k), .val r2], d2) ∧
      (k' = k → r2 = none) ∧ (k' ≠ k → r2 = r1) := by
  have hops1 : ∀ op ∈ ops ++ [.get k'], Op.OK kt op ∧ op.Small := by
    intro op ho
    rcases List.mem_append.mp ho with h | h
    · exact hops op (List.mem_append_left _ h)
    · refine hops op (List.mem_append_right _ ?_)
      simp only [List.mem_cons, List.not_mem_nil, or_false] at h ⊢
      exact Or.inr h
  have hk1 : budgetK (ops ++ [.get k']) < 2^32 := by
    simp only [budgetK, List.map_append, List.sum_append, List.map_cons, List.map_nil, List.sum_cons,
      List.sum_nil, Op.keyCost] at hk ⊢
    omega
  have hv1 : budgetV (ops ++ [.get k']) < 2^32 := by
    simp only [budgetV, List.map_append, List.sum_append, List.map_cons, List.map_nil, List.sum_cons,
      List.sum_nil, Op.valCost] at hv ⊢
    omega
  have hk2 : budgetK (ops ++ [.del k, .get k']) < 2^32 := by
    simp only [budgetK, List.map_append, List.sum_append, List.map_cons, List.map_nil, List.sum_cons,
      List.sum_nil, Op.keyCost] at hk ⊢
    omega
  have hv2 : budgetV (ops ++ [.del k, .get k']) < 2^32 := by
    simp only [budgetV, List.map_append, List.sum_append, List.map_cons, List.map_nil, List.sum_cons,
      List.sum_nil, Op.valCost] at hv ⊢
    omega
  obtain ⟨d1, h1, _⟩ := C01_generated_budget kt n hn hn2 _ hops1 hk1 hv1
  obtain ⟨d2, h2, _⟩ := C01_generated_budget kt n hn hn2 _ hops hk2 hv2
  rw [Spec.run_append] at h1 h2
  refine ⟨d1, d2, Spec.get (Spec.run [] ops).1 k', Spec.get (Spec.del (Spec.run [] ops).1 k) k', ?_, ?_, ?_, ?_⟩
  · simpa [Spec.run, Spec.step] using h1
  · simpa [Spec.run, Spec.step] using h2
  · intro e; subst e; exact Spec.get_del_self _ _
  · intro hne; exact Spec.get_del_ne _ _ _ hne

/-- non-vacuity: the hypotheses of `C08_generated_update_local` are satisfiable — the example history of
`C01Budget` (which relocates a value record and rewrites its key record), then an overwrite of `[1,2,3]`
with a longer value, then a lookup of `[9]` -/
example : (∀ op ∈ budgetExample ++ [.put [1, 2, 3] (List.replicate 40 7), .get [9]], Op.OK .bytes op ∧ op.Small) ∧
    budgetK (budgetExample ++ [.put [1, 2, 3] (List.replicate 40 7), .get [9]]) < 2^32 ∧
    budgetV (budgetExample ++ [.put [1, 2, 3] (List.replicate 40 7), .get [9]]) < 2^32 := by
  refine ⟨?_, by decide, by decide⟩
  intro op hop
  simp only [budgetExample, List.cons_append, List.nil_append, List.mem_cons, List.not_mem_nil, or_false] at hop
  rcases hop with rfl | rfl | rfl | rfl | rfl | rfl | rfl | rfl | rfl | rfl <;>
    exact ⟨by simp [Op.OK, Store.KeyOK], by simp [Op.Small]⟩

end Abyss
