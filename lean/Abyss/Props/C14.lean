import Abyss.Db
import Abyss.Props.C01
import Abyss.Lemmas.BulkL
/-!
# C14 — bulk and convenience calls equal their element-wise counterparts

`bulk_get` / `bulk_delete` sort the batch, process it, and restore input order by index;
`bulk_put` / `bulk_put_string` sort and process; `put_from_iter` processes in iteration order.
The model takes the processing order as an arbitrary permutation `order` of the indices, so the
theorems cover whatever order the sort produces.  The `*_string` variants are the byte variants
composed with `str::as_bytes` / `String::from_utf8_lossy`, which do not occur in the model (values
are bytes); the tie exercises them with the crate's own conversions.
-/
namespace Abyss
open Store

/-! ## auxiliary lemmas -/

/-- looking up index `i` among answers stored by index -/
theorem find_answers (g : Nat → Option (List Nat)) (order : List Nat) (i : Nat) (hi : i ∈ order) :
    (((order.map fun j => (j, g j)).find? (·.1 = i)).map (·.2)).getD none = g i := by
  induction order with
  | nil => cases hi
  | cons a order ih =>
    by_cases ha : a = i
    · subst ha; simp
    · have hi' : i ∈ order := by
        rcases List.mem_cons.1 hi with e | e
        · exact absurd e.symm ha
        · exact e
      simpa [List.find?_cons, ha] using ih hi'

/-- answers stored by index for every index of the batch come back in input order -/
theorem restore_answers (ks : List (List Nat)) (f : List Nat → Option (List Nat)) (order : List Nat)
    (hperm : order.Perm (List.range ks.length)) :
    restore ks.length (order.map fun i => (i, f (ks.getD i []))) = ks.map f := by
  rw [map_eq_range_getD ks f]
  unfold restore
  apply List.map_congr_left
  intro i hi
  exact find_answers (fun i => f (ks.getD i [])) order i (hperm.mem_iff.2 hi)

theorem order_lt {n : Nat} {order : List Nat} (hperm : order.Perm (List.range n)) :
    ∀ i ∈ order, i < n := fun _ hi => List.mem_range.1 (hperm.mem_iff.1 hi)

theorem order_keys_perm (ks : List (List Nat)) (order : List Nat)
    (hperm : order.Perm (List.range ks.length)) :
    (order.map fun i => ks.getD i []).Perm ks := by
  have := hperm.map (fun i => ks.getD i [])
  rwa [range_map_getD] at this

theorem bulkGetIn_spec {kt : KeyType} {s : Store} (h : Inv kt s) (ks : List (List Nat))
    (order : List Nat) (hks : ∀ i ∈ order, KeyOK kt (ks.getD i [])) :
    s.bulkGetIn kt ks order = some (order.map fun i => (i, Spec.get (abs s) (ks.getD i []))) := by
  unfold bulkGetIn
  induction order with
  | nil => simp
  | cons i order ih =>
    have h1 := get_spec h _ (hks i (List.mem_cons_self ..))
    have h2 := ih (fun j hj => hks j (List.mem_cons_of_mem _ hj))
    rw [List.mapM_cons, h1, h2]
    rfl

theorem bulkDelIn_spec {kt : KeyType} (ks : List (List Nat)) (order : List Nat) :
    ∀ {s : Store}, Inv kt s → (∀ i ∈ order, KeyOK kt (ks.getD i [])) →
      (order.map fun i => ks.getD i []).Nodup →
      ∃ s', bulkDelIn kt s ks order
            = some (s', order.map fun i => (i, Spec.get (abs s) (ks.getD i []))) ∧ Inv kt s' ∧
        Spec.Equiv (abs s') ((order.map fun i => ks.getD i []).foldl Spec.del (abs s)) := by
  induction order with
  | nil =>
    intro s h _ _
    exact ⟨s, rfl, h, Spec.Equiv.refl _ (abs_nodup h)⟩
  | cons i order ih =>
    intro s h hks hnd
    simp only [List.map_cons, List.nodup_cons] at hnd
    obtain ⟨s1, hd, h1, _, he1⟩ := del_spec h _ (hks i (List.mem_cons_self ..))
    obtain ⟨s', hb, h', he'⟩ := ih h1 (fun j hj => hks j (List.mem_cons_of_mem _ hj)) hnd.2
    refine ⟨s', ?_, h', ?_⟩
    · simp only [bulkDelIn, hd, hb, List.map_cons]
      congr 3
      apply List.map_congr_left
      intro j hj
      have hne : ks.getD j [] ≠ ks.getD i [] := by
        intro e
        exact hnd.1 (e ▸ List.mem_map.2 ⟨j, hj, rfl⟩)
      rw [he1.2.2, Spec.get_del_ne _ _ _ hne]
    · simp only [List.map_cons, List.foldl_cons]
      exact he'.trans (he1.foldl_del _)

theorem putAll_spec {kt : KeyType} (kvs : List (List Nat × List Nat)) :
    ∀ {s : Store}, Inv kt s → (∀ p ∈ kvs, KeyOK kt p.1) →
    ∃ s', s.putAll kt kvs = some s' ∧ Inv kt s' ∧
      Spec.Equiv (abs s') (kvs.foldl (fun m p => Spec.put m p.1 p.2) (abs s)) := by
  induction kvs with
  | nil =>
    intro s h _
    exact ⟨s, rfl, h, Spec.Equiv.refl _ (abs_nodup h)⟩
  | cons p kvs ih =>
    intro s h hks
    obtain ⟨k, v⟩ := p
    obtain ⟨s1, hp, h1, _, he1⟩ := put_spec h k v (hks (k, v) (List.mem_cons_self ..))
    obtain ⟨s', hb, h', he'⟩ := ih h1 (fun q hq => hks q (List.mem_cons_of_mem _ hq))
    refine ⟨s', ?_, h', ?_⟩
    · simp only [putAll, hp, hb]
    · simp only [List.foldl_cons]
      exact he'.trans (he1.foldl_put _)

/-! ## the theorems -/

/-- `bulk_get` returns at position `i` what `get` of the `i`-th key returns — for any batch
(repeated keys allowed) and any processing order -/
theorem C14_bulk_get {kt : KeyType} {s : Store} (h : Inv kt s) (ks : List (List Nat))
    (hks : ∀ k ∈ ks, KeyOK kt k) (order : List Nat) (hperm : order.Perm (List.range ks.length)) :
    s.bulkGet kt ks order = some (ks.map fun k => Spec.get (abs s) k) := by
  have hk : ∀ i ∈ order, KeyOK kt (ks.getD i []) := fun i hi =>
    hks _ (getD_mem_of_lt ks i (order_lt hperm i hi))
  unfold bulkGet
  rw [bulkGetIn_spec h ks order hk, Option.map_some,
    restore_answers ks (fun k => Spec.get (abs s) k) order hperm]

/-- `bulk_delete` of a batch without repeated keys returns at position `i` what `delete` of the
`i`-th key would return, and leaves the map as the individual deletes would — for any processing
order -/
theorem C14_bulk_delete {kt : KeyType} {s : Store} (h : Inv kt s) (ks : List (List Nat))
    (hks : ∀ k ∈ ks, KeyOK kt k) (hnd : ks.Nodup) (order : List Nat)
    (hperm : order.Perm (List.range ks.length)) :
    ∃ s', s.bulkDelete kt ks order = some (s', ks.map fun k => Spec.get (abs s) k) ∧ Inv kt s' ∧
      Spec.Equiv (abs s') (ks.foldl Spec.del (abs s)) := by
  have hk : ∀ i ∈ order, KeyOK kt (ks.getD i []) := fun i hi =>
    hks _ (getD_mem_of_lt ks i (order_lt hperm i hi))
  have hp := order_keys_perm ks order hperm
  obtain ⟨s', hb, h', he⟩ := bulkDelIn_spec (kt := kt) ks order h hk (hp.nodup_iff.2 hnd)
  refine ⟨s', ?_, h', he.trans (Spec.foldl_del_perm _ (abs_nodup h) hp)⟩
  unfold bulkDelete
  rw [hb, Option.map_some, restore_answers ks (fun k => Spec.get (abs s) k) order hperm]

/-- the element-wise counterpart: deleting the keys one by one in input order gives those same
answers (for a batch without repeats) -/
theorem C14_delete_elementwise (m : Spec.Map) (ks : List (List Nat)) (hnd : ks.Nodup) :
    (Spec.run m (ks.map Op.del)).2 = ks.map (fun k => Out.val (Spec.get m k)) ∧
    (Spec.run m (ks.map Op.del)).1 = ks.foldl Spec.del m := by
  induction ks generalizing m with
  | nil => exact ⟨rfl, rfl⟩
  | cons k ks ih =>
    simp only [List.nodup_cons] at hnd
    obtain ⟨ih1, ih2⟩ := ih (Spec.del m k) hnd.2
    simp only [List.map_cons, Spec.run, Spec.step, List.foldl_cons]
    refine ⟨?_, ih2⟩
    rw [ih1]
    congr 1
    apply List.map_congr_left
    intro k' hk'
    have hne : k' ≠ k := fun e => hnd.1 (e ▸ hk')
    rw [Spec.get_del_ne _ _ _ hne]

/-- `bulk_put` of a batch without repeated keys leaves the map exactly as the individual puts
in input order would — for any processing order; `put_from_iter` is the case `order = input` -/
theorem C14_bulk_put {kt : KeyType} {s : Store} (h : Inv kt s) (kvs kvs' : List (List Nat × List Nat))
    (hks : ∀ p ∈ kvs, KeyOK kt p.1) (hnd : (kvs.map Prod.fst).Nodup) (hperm : kvs'.Perm kvs) :
    ∃ s', s.putAll kt kvs' = some s' ∧ Inv kt s' ∧
      Spec.Equiv (abs s') (kvs.foldl (fun m p => Spec.put m p.1 p.2) (abs s)) := by
  have hks' : ∀ p ∈ kvs', KeyOK kt p.1 := fun p hp => hks p (hperm.mem_iff.1 hp)
  obtain ⟨s', hb, h', he⟩ := putAll_spec (kt := kt) kvs' h hks'
  exact ⟨s', hb, h', he.trans (Spec.foldl_put_perm _ (abs_nodup h) hnd hperm)⟩

/-- `put_from_iter` applies the pairs in iteration order (repeats allowed: later pairs win) -/
theorem C14_put_from_iter {kt : KeyType} {s : Store} (h : Inv kt s) (kvs : List (List Nat × List Nat))
    (hks : ∀ p ∈ kvs, KeyOK kt p.1) :
    ∃ s', s.putAll kt kvs = some s' ∧ Inv kt s' ∧
      Spec.Equiv (abs s') (kvs.foldl (fun m p => Spec.put m p.1 p.2) (abs s)) := by
  exact putAll_spec kvs h hks

end Abyss
