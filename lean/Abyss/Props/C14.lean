import Abyss.Db
import Abyss.Props.C01
/-!
# C14 — bulk and convenience calls equal their element-wise counterparts

`bulk_get` / `bulk_delete` sort the batch, process it, and restore input order by index;
`bulk_put` / `bulk_put_string` sort and process; `put_from_iter` processes in iteration order.
The model takes the processing order as an arbitrary permutation `order` of the indices, so the
theorems cover whatever order the sort produces.  The `*_string` variants are the byte variants
composed with `str::as_bytes` / `String::from_utf8_lossy`, which do not occur in the model (values
are bytes); the tie exercises them with the crate's own conversions.
-/
namespace Abyss
open Store

/-- `bulk_get` returns at position `i` what `get` of the `i`-th key returns — for any batch
(repeated keys allowed) and any processing order -/
theorem C14_bulk_get {kt : KeyType} {s : Store} (h : Inv kt s) (ks : List (List Nat))
    (hks : ∀ k ∈ ks, KeyOK kt k) (order : List Nat) (hperm : order.Perm (List.range ks.length)) :
    s.bulkGet kt ks order = some (ks.map fun k => Spec.get (abs s) k) := by
  sorry

/-- `bulk_delete` of a batch without repeated keys returns at position `i` what `delete` of the
`i`-th key would return, and leaves the map as the individual deletes would — for any processing
order -/
theorem C14_bulk_delete {kt : KeyType} {s : Store} (h : Inv kt s) (ks : List (List Nat))
    (hks : ∀ k ∈ ks, KeyOK kt k) (hnd : ks.Nodup) (order : List Nat)
    (hperm : order.Perm (List.range ks.length)) :
    ∃ s', s.bulkDelete kt ks order = some (s', ks.map fun k => Spec.get (abs s) k) ∧ Inv kt s' ∧
      Spec.Equiv (abs s') (ks.foldl Spec.del (abs s)) := by
  sorry

/-- the element-wise counterpart: deleting the keys one by one in input order gives those same
answers (for a batch without repeats) -/
theorem C14_delete_elementwise (m : Spec.Map) (ks : List (List Nat)) (hnd : ks.Nodup) :
    (Spec.run m (ks.map Op.del)).2 = ks.map (fun k => Out.val (Spec.get m k)) ∧
    (Spec.run m (ks.map Op.del)).1 = ks.foldl Spec.del m := by
  sorry

/-- `bulk_put` of a batch without repeated keys leaves the map exactly as the individual puts
in input order would — for any processing order; `put_from_iter` is the case `order = input` -/
theorem C14_bulk_put {kt : KeyType} {s : Store} (h : Inv kt s) (kvs kvs' : List (List Nat × List Nat))
    (hks : ∀ p ∈ kvs, KeyOK kt p.1) (hnd : (kvs.map Prod.fst).Nodup) (hperm : kvs'.Perm kvs) :
    ∃ s', s.putAll kt kvs' = some s' ∧ Inv kt s' ∧
      Spec.Equiv (abs s') (kvs.foldl (fun m p => Spec.put m p.1 p.2) (abs s)) := by
  sorry

/-- `put_from_iter` applies the pairs in iteration order (repeats allowed: later pairs win) -/
theorem C14_put_from_iter {kt : KeyType} {s : Store} (h : Inv kt s) (kvs : List (List Nat × List Nat))
    (hks : ∀ p ∈ kvs, KeyOK kt p.1) :
    ∃ s', s.putAll kt kvs = some s' ∧ Inv kt s' ∧
      Spec.Equiv (abs s') (kvs.foldl (fun m p => Spec.put m p.1 p.2) (abs s)) := by
  sorry

end Abyss
