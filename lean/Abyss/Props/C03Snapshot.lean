import Abyss.Props.C03
import Abyss.Props.C02
/-!
# C03, end to end at model level: the directory as it is when flush / sync returns Ok opens to
exactly the current map state
-/
namespace Abyss
open Store Buf

/-- After any history of small operations on a fresh map (files below 4 GiB), if the buffers'
memory view is the rendered image of the current state `s` and a flush / sync_all / sync_data —
under any schedule of earlier or concurrent write refusals — returns Ok, then the independent
reader applied to the three files *as they are on disk at that moment* yields a state that
satisfies the invariant, has exactly the contents of `s`, and answers every further history as
`s` does. -/
theorem C03_snapshot_opens (kt : KeyType) (n : Nat) (hn : 0 < n) (hn2 : n < 2^60) (ops : List Op)
    (hops : ∀ op ∈ ops, Op.OK kt op ∧ op.Small) (s : Store) (outs : List Out)
    (hrun : (Store.init n).run kt ops = some (s, outs)) (hk : s.kf.end_ < 2^32) (hv : s.vf.end_ < 2^32)
    (φ : Faults) (kind : SyncKind) (m : MapBuf) (hm : m.OK)
    (hmv : m.val.mem = Content.ofList (render kt s).val) (hmk : m.key.mem = Content.ofList (render kt s).key)
    (hmh : m.htx.mem = Content.ofList (render kt s).htx)
    (hok : (m.flushLike φ kind).2.1 = true)
    (more : List Op) (hmore : ∀ op ∈ more, Op.OK kt op) :
    let m' := (m.flushLike φ kind).1
    ∃ t, parse kt ⟨m'.htx.disk.toList, m'.key.disk.toList, m'.val.disk.toList⟩ = some t ∧
      Inv kt t ∧ abs t = abs s ∧
      ∃ s' t' outs', s.run kt more = some (s', outs') ∧ t.run kt more = some (t', outs') := by
  intro m'
  obtain ⟨h1, h2, h3⟩ := C03_crash_image φ kind m hm _ _ _ hmv hmk hmh hok
  have himg : (⟨m'.htx.disk.toList, m'.key.disk.toList, m'.val.disk.toList⟩ : Image) = render kt s := by
    show (⟨_, _, _⟩ : Image) = _
    rw [h1, h2, h3]
  rw [himg]
  exact C02_reopen kt n hn hn2 ops hops s outs hrun hk hv more hmore

/-- a durable file whose memory view is `l` has exactly `l` on disk -/
theorem Buf.durable_image (f : BFile) (hd : f.Durable) (l : List Nat) (hm : f.mem = Content.ofList l) :
    f.disk.toList = l := by
  obtain ⟨hb, hl⟩ := hd
  rw [← Content.toList_ofList l, ← hm]
  simp only [Content.toList, hl]
  exact List.map_congr_left (fun i _ => hb i)

/-- **C16, end to end at model level.** A flush that failed (some write refused) followed — once
writes are accepted again — by a flush: the second returns Ok and the files on disk are exactly the
rendered image of the current state, i.e. every update is durable and nothing was lost. -/
theorem C16_recovered_image (φ : Faults) (kind kind' : SyncKind) (m : MapBuf) (hm : m.OK)
    (img_htx img_key img_val : List Nat)
    (hv : m.val.mem = Content.ofList img_val) (hk : m.key.mem = Content.ofList img_key)
    (hh : m.htx.mem = Content.ofList img_htx)
    (hfail : (m.flushLike φ kind).2.1 = false) :
    let m2 := ((m.flushLike φ kind).1.flushLike noFaults kind').1
    ((m.flushLike φ kind).1.flushLike noFaults kind').2.1 = true ∧
    m2.val.disk.toList = img_val ∧ m2.key.disk.toList = img_key ∧ m2.htx.disk.toList = img_htx := by
  intro m2
  obtain ⟨_, _, hok2, hd, hmv, hmk, hmh⟩ := C16_recovers φ kind kind' m hm hfail
  obtain ⟨hdv, hdk, hdh⟩ := hd
  exact ⟨hok2, Buf.durable_image _ hdv _ (hmv.trans hv), Buf.durable_image _ hdk _ (hmk.trans hk),
    Buf.durable_image _ hdh _ (hmh.trans hh)⟩

end Abyss
