import Abyss.Scan
import Abyss.Stats
import Abyss.Db
import Abyss.Props.C03
import Abyss.Props.C01
/-!
# C15 — read-only calls have no side effects on contents or files

At the level of `Store` a read-only call is a *function of* the state: `get`, `includes`, `len`,
`is_empty`, the iterators (`iterAll`), the statistics calls and `bulk_get` return a value and no
new state at all; `Store.step` returns the same state for them.  Hence `render` — the bytes of the
three files — is unchanged.  At the buffer level (`Abyss/Buf.lean`) `read` is a pure function of
`mem` (`read_pure`) and a flush never changes `mem` (`C16_memory_intact`); a flush of a map whose
dirty flag is clear does nothing at all (`C15_flush_clean`).
-/
namespace Abyss
open Store

/-- a read-only call returns the state it was given -/
theorem C15_store_frame (kt : KeyType) (s s' : Store) (op : Op) (o : Out) (hro : op.isUpdate = false)
    (h : s.step kt op = some (s', o)) : s' = s := by
  cases op with
  | put k v => simp [Op.isUpdate] at hro
  | del k => simp [Op.isUpdate] at hro
  | get k =>
    simp only [Store.step, Option.map_eq_some_iff] at h
    obtain ⟨r, _, hr⟩ := h
    exact (congrArg Prod.fst hr).symm
  | includes k =>
    simp only [Store.step, Option.map_eq_some_iff] at h
    obtain ⟨r, _, hr⟩ := h
    exact (congrArg Prod.fst hr).symm
  | len =>
    simp only [Store.step, Option.some.injEq] at h
    exact (congrArg Prod.fst h).symm
  | isEmpty =>
    simp only [Store.step, Option.some.injEq] at h
    exact (congrArg Prod.fst h).symm

/-- … so the files are byte-for-byte what they were -/
theorem C15_files_unchanged (kt : KeyType) (s s' : Store) (op : Op) (o : Out) (hro : op.isUpdate = false)
    (h : s.step kt op = some (s', o)) : render kt s' = render kt s := by
  rw [C15_store_frame kt s s' op o hro h]

/-- `delete` of an absent key and lookups of absent keys change nothing either -/
theorem C15_delete_absent {kt : KeyType} {s : Store} (h : Inv kt s) (k : List Nat) (hk : KeyOK kt k)
    (habs : Spec.get (abs s) k = none) : s.del kt k = some (s, none) := by
  have hno := (abs_get_none h k).mp habs
  rcases find_spec h k hk with ⟨o, sz, r, l1, l2, _, hu, hkr, _⟩ | ⟨hfind, _⟩
  · exact absurd hkr (hno o sz r hu)
  · simp [Store.del, hfind]

/-- a sequence of read-only calls, of any length, leaves state and files unchanged -/
theorem C15_session (kt : KeyType) (ops : List Op) (hro : ∀ op ∈ ops, op.isUpdate = false) :
    ∀ (s s' : Store) (outs : List Out), s.run kt ops = some (s', outs) → s' = s ∧ render kt s' = render kt s := by
  induction ops with
  | nil =>
    intro s s' outs h
    simp only [Store.run, Option.some.injEq, Prod.mk.injEq] at h
    rw [← h.1]; exact ⟨rfl, rfl⟩
  | cons op ops ih =>
    intro s s' outs h
    simp only [Store.run] at h
    cases hs : s.step kt op with
    | none => simp [hs] at h
    | some p =>
      obtain ⟨s1, o⟩ := p
      have h1 : s1 = s := C15_store_frame kt s s1 op o (hro op (by simp)) hs
      simp only [hs] at h
      cases hr : Store.run kt s1 ops with
      | none => simp [hr] at h
      | some q =>
        obtain ⟨s2, os⟩ := q
        simp only [hr, Option.some.injEq, Prod.mk.injEq] at h
        have := ih (fun op' hm => hro op' (by simp [hm])) s1 s2 os hr
        rw [← h.1, ← h1]; exact this

/-- flush / sync on a map whose dirty flag is clear writes nothing: buffers, disk and flag are
exactly as before, and no event is emitted -/
theorem C15_flush_clean (φ : Buf.Faults) (kind : Buf.SyncKind) (m : Buf.MapBuf) (hd : m.dirty = false) :
    m.flushLike φ kind = (m, true, []) := by
  simp [Buf.MapBuf.flushLike, hd]

end Abyss
