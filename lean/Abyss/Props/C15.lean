import Abyss.Scan
import Abyss.Stats
import Abyss.Db
import Abyss.Props.C03
import Abyss.Props.C01
/-!
# C15 — read-only calls have no side effects on contents or files

At the level of `Store` a read-only call is a *function of* the state: `get`, `includes`, `len`,
`is_empty`, the iterators (`iterAll`), the statistics calls and `bulk_get` return a value and no
new state at all; `Store.step` returns the same state for them.  Hence `render` — the bytes of the
three files — is unchanged.  At the buffer level (`Abyss/Buf.lean`) `read` is a pure function of
`mem` (`read_pure`) and a flush never changes `mem` (`C16_memory_intact`); a flush of a map whose
dirty flag is clear does nothing at all (`C15_flush_clean`).
-/
namespace Abyss
open Store

/-- a read-only call returns the state it was given -/
theorem C15_store_frame (kt : KeyType) (s s' : Store) (op : Op) (o : Out) (hro : op.isUpdate = false)
    (h : s.step kt op = some (s', o)) : s' = s := by
  sorry

/-- … so the files are byte-for-byte what they were -/
theorem C15_files_unchanged (kt : KeyType) (s s' : Store) (op : Op) (o : Out) (hro : op.isUpdate = false)
    (h : s.step kt op = some (s', o)) : render kt s' = render kt s := by
  rw [C15_store_frame kt s s' op o hro h]

/-- `delete` of an absent key and lookups of absent keys change nothing either -/
theorem C15_delete_absent {kt : KeyType} {s : Store} (h : Inv kt s) (k : List Nat) (hk : KeyOK kt k)
    (habs : Spec.get (abs s) k = none) : s.del kt k = some (s, none) := by
  sorry

/-- a sequence of read-only calls, of any length, leaves state and files unchanged -/
theorem C15_session (kt : KeyType) (ops : List Op) (hro : ∀ op ∈ ops, op.isUpdate = false) :
    ∀ (s s' : Store) (outs : List Out), s.run kt ops = some (s', outs) → s' = s ∧ render kt s' = render kt s := by
  sorry

/-- flush / sync on a map whose dirty flag is clear writes nothing: buffers, disk and flag are
exactly as before, and no event is emitted -/
theorem C15_flush_clean (φ : Buf.Faults) (kind : Buf.SyncKind) (m : Buf.MapBuf) (hd : m.dirty = false) :
    m.flushLike φ kind = (m, true, []) := by
  sorry

end Abyss
