/-!
# Buffered files, the dirty flag of a map, flush / sync, refused writes

Model of `rabuf::BufFile` as the crate uses it (write-back cache of fixed-size chunks over one
file) and of `FileDbXxxInner::{flush, sync_all, sync_data}` over the three files of a map.
A file is a total function `Nat → Nat` (byte at offset, 0 beyond the end) plus its length, which
keeps the statements independent of list surgery.  `Faults` decides which chunk writes the
operating system refuses (e.g. `RLIMIT_FSIZE`): the `k`-th write attempt of a flush fails iff
`φ k`; a refused write leaves the disk bytes of that chunk untouched or replaces a prefix of them
(`prefixLen`), and the chunk stays dirty.
-/
namespace Abyss.Buf

/-- contents of a file: bytes and length -/
structure Content where
  byte : Nat → Nat
  len : Nat

/-- one buffered file: what is on disk, what every read sees (`mem`), the dirty chunk indices,
the chunk size -/
structure BFile where
  disk : Content
  mem : Content
  dirty : List Nat
  chunk : Nat

/-- disk and memory agree on every byte outside the dirty chunks; the lengths agree if nothing
is dirty -/
def BFile.Coherent (f : BFile) : Prop :=
  0 < f.chunk ∧ (∀ i, i / f.chunk ∉ f.dirty → f.disk.byte i = f.mem.byte i) ∧
  (f.dirty = [] → f.disk.len = f.mem.len)

/-- a buffered write of `bs` at `off`: only the cache changes; the touched chunks become dirty.
A write of no bytes changes nothing (in particular it does not extend the file, whatever `off`). -/
def BFile.write (f : BFile) (off : Nat) (bs : List Nat) : BFile :=
  { f with
    mem := { byte := fun i => if off ≤ i ∧ i < off + bs.length then bs.getD (i - off) 0 else f.mem.byte i,
             len := if bs = [] then f.mem.len else max f.mem.len (off + bs.length) }
    dirty := f.dirty ++ (List.range bs.length).map fun j => (off + j) / f.chunk }

/-- a buffered read never changes anything -/
def BFile.read (f : BFile) (off n : Nat) : List Nat := (List.range n).map fun j => f.mem.byte (off + j)

/-- write chunk `c` back: the disk gets the cache's bytes of that chunk -/
def BFile.writeBack (f : BFile) (c : Nat) : BFile :=
  { f with
    disk := { byte := fun i => if i / f.chunk = c then f.mem.byte i else f.disk.byte i, len := max f.disk.len (min f.mem.len ((c + 1) * f.chunk)) }
    dirty := f.dirty.filter (· ≠ c) }

/-- a refused chunk write: the first `p` bytes of the chunk may have reached the disk; the chunk
stays dirty -/
def BFile.writeRefused (f : BFile) (c p : Nat) : BFile :=
  { f with
    disk := { byte := fun i => if i / f.chunk = c ∧ i % f.chunk < p then f.mem.byte i else f.disk.byte i, len := f.disk.len } }

/-- which write attempts fail, and how many bytes of a failing chunk still get through -/
structure Faults where
  fails : Nat → Bool
  prefixLen : Nat → Nat

/-- flush: write the dirty chunks back in the given order; stop at the first refused write.
Returns the file, `true` for Ok / `false` for Err, and the number of write attempts made. -/
def BFile.flushFrom (φ : Faults) : List Nat → BFile → Nat → BFile × Bool × Nat
  | [], f, k => ({ f with disk := { f.disk with len := f.mem.len } }, true, k)
  | c :: cs, f, k =>
    if φ.fails k then (f.writeRefused c (φ.prefixLen k), false, k + 1)
    else flushFrom φ cs (f.writeBack c) (k + 1)

/-- `dirty` may list a chunk index several times (`write` appends one entry per byte); a flush
attempts each dirty chunk once, so that every attempted chunk is still dirty when it is attempted. -/
def BFile.flush (φ : Faults) (f : BFile) (k : Nat) : BFile × Bool × Nat :=
  BFile.flushFrom φ f.dirty.eraseDups f k

def noFaults : Faults := ⟨fun _ => false, fun _ => 0⟩

/-- the three buffered files of a map and its dirty flag -/
structure MapBuf where
  val : BFile
  key : BFile
  htx : BFile
  dirty : Bool

/-- events a flush-like call emits, in order -/
inductive Ev where
  | flush (file : String)
  | osSync (file : String) (all : Bool)
  deriving DecidableEq, Repr

/-- which of the three calls -/
inductive SyncKind where
  | flush | syncAll | syncData
  deriving DecidableEq, Repr

def evs (kind : SyncKind) (file : String) : List Ev :=
  match kind with
  | .flush => [.flush file]
  | .syncAll => [.flush file, .osSync file true]
  | .syncData => [.flush file, .osSync file false]

/-- `flush` / `sync_all` / `sync_data` of a map: only if dirty; value file, key file, table file
in that order; `?` after each; the flag is cleared only after all three succeeded. -/
def MapBuf.flushLike (φ : Faults) (kind : SyncKind) (m : MapBuf) : MapBuf × Bool × List Ev :=
  if !m.dirty then (m, true, []) else
  let (v, okv, k1) := m.val.flush φ 0
  if !okv then ({ m with val := v }, false, [.flush "val"]) else
  let (kf, okk, k2) := m.key.flush φ k1
  if !okk then ({ m with val := v, key := kf }, false, evs kind "val" ++ [.flush "key"]) else
  let (h, okh, _) := m.htx.flush φ k2
  if !okh then ({ m with val := v, key := kf, htx := h }, false, evs kind "val" ++ evs kind "key" ++ [.flush "htx"]) else
  ({ val := v, key := kf, htx := h, dirty := false }, true, evs kind "val" ++ evs kind "key" ++ evs kind "htx")

/-- an update of the map: buffered writes into the three files, and the dirty flag is raised -/
def MapBuf.update (m : MapBuf) (wv wk wh : List (Nat × List Nat)) : MapBuf :=
  { val := wv.foldl (fun f w => f.write w.1 w.2) m.val
    key := wk.foldl (fun f w => f.write w.1 w.2) m.key
    htx := wh.foldl (fun f w => f.write w.1 w.2) m.htx
    dirty := true }

/-- the invariant of a map's buffers: each file coherent, and a clear flag means no dirty chunk -/
def MapBuf.OK (m : MapBuf) : Prop :=
  m.val.Coherent ∧ m.key.Coherent ∧ m.htx.Coherent ∧
  (m.dirty = false → m.val.dirty = [] ∧ m.key.dirty = [] ∧ m.htx.dirty = [])

/-- disk = memory for one file -/
def BFile.Durable (f : BFile) : Prop := (∀ i, f.disk.byte i = f.mem.byte i) ∧ f.disk.len = f.mem.len

def MapBuf.Durable (m : MapBuf) : Prop := m.val.Durable ∧ m.key.Durable ∧ m.htx.Durable

end Abyss.Buf
