/-!
# `rabuf` 0.1.20 — executable model of `RaBuf<File>` (`BufFile`)

Feature set: `buf_auto_buf_size`, `buf_overf_rem_all`, `buf_pin_zero`, `buf_hash_turbo`
(what abyssiniandb's `rabuf_default` turns on).  Source: `rabuf-0.1.20/src/lib.rs`; the line
numbers in the comments refer to that file.

A write-back cache of fixed-size chunks over one file.  The state keeps the bytes of the
underlying file (`disk`), the logical cursor and the logical length (`pos`, `end_`), the chunk
size, the (run-time variable) capacity in chunks and the resident chunks **in load order**.

Left out, because they are derivable / performance only:
* `fetch_cache : Option (offset, idx)` — a one-entry shortcut in front of the index; a hit returns
  the very chunk the index would return (`fetch_cache = Some (o, i) → chunks[i].offset = o`);
* the offset index `map : offset ↦ position in chunks` — it is exactly `chunks[i].off ↦ i`
  (entries are only ever added together with a push and removed by `clear`), so lookup is
  `List.find?` on the offset;
* `chunk_mask` — `pos & mask = pos / cs * cs` for a power of two `cs`; the model only needs `cs > 0`;
* `name`, and the cursor of the underlying `File` (every underlying access seeks first).

Bytes are `Nat` (`< 256` is not enforced).  `u64`/`usize` wrap-around is not modelled.

Outcomes.  An operation that can fail returns `Out α`:
* `ok s k a`   — the call returned `Ok(a)`;
* `err s k`    — the call returned `Err(_)` (a refused chunk write, or a failed chunk load);
* `hang s k`   — the call never returns (unbounded recursion `add_chunk → remove_chunks →
  add_chunk`, lib.rs 1413–1417); `s` is the state the recursion is stuck in (its `disk` is what an
  outside observer sees).  `Out.toOption` forgets that state: `none` = does not return.
In all three cases `s` is the state left behind and `k` the write-attempt counter (below).

Faults.  `Chunk::write`'s `file.write_all` may be refused.  The `k`-th write attempt (counted over
the whole life of the buffer; the counter is threaded through every operation that can flush)
fails iff `φ.fails k`; then the first `φ.prefixLen k` bytes of what was to be written may have
reached the disk and the chunk stays dirty.  A write of zero bytes is not an attempt (`write_all`
of an empty slice does nothing).  With `noFaults` nothing fails.
Not modelled as fallible: `File::set_len`, `File::seek`, the constructors' `seek`/`rewind`,
`sync_*`.  A chunk *load* fails exactly when `read_exact` on the real file would hit the end of the
file, or — `off > end_` — where the real code underflows at lib.rs:851 (panic with overflow checks,
`UnexpectedEof` without).
-/
namespace Abyss.RaBuf

/-- a resident chunk: file offset of `data[0]` (a multiple of the chunk size), exactly `cs` bytes,
the dirty flag (lib.rs 828–839; `uses` is cfg'd out) -/
structure Chunk where
  off : Nat
  data : List Nat
  dirty : Bool
  deriving Repr, BEq, DecidableEq

structure St where
  /-- the bytes of the underlying file (its length is the on-disk length) -/
  disk : List Nat
  /-- logical cursor -/
  pos : Nat
  /-- logical length (`>=` on-disk length as long as nobody else touches the file) -/
  end_ : Nat
  /-- chunk size, `> 0` -/
  cs : Nat
  /-- `max_num_chunks` -/
  max : Nat
  /-- `Some per_mille` iff built by `with_per_mille` / `new` -/
  auto : Option Nat
  /-- resident chunks in load order -/
  chunks : List Chunk
  deriving Repr, BEq, DecidableEq

/-- which chunk-write attempts are refused, and how many bytes of a refused write get through -/
structure Faults where
  fails : Nat → Bool
  prefixLen : Nat → Nat

def noFaults : Faults := ⟨fun _ => false, fun _ => 0⟩

/-- outcome of a fallible operation, see the header -/
inductive Out (α : Type) where
  | ok (s : St) (k : Nat) (a : α)
  | err (s : St) (k : Nat)
  | hang (s : St) (k : Nat)
  deriving Repr

/-- sequencing: continue only after `Ok` -/
def Out.bind {α β : Type} (o : Out α) (f : St → Nat → α → Out β) : Out β :=
  match o with
  | .ok s k a => f s k a
  | .err s k => .err s k
  | .hang s k => .hang s k

def Out.st {α : Type} : Out α → St
  | .ok s _ _ => s | .err s _ => s | .hang s _ => s

def Out.cnt {α : Type} : Out α → Nat
  | .ok _ k _ => k | .err _ k => k | .hang _ k => k

/-- the `Option` view: `none` = the real call does not return; otherwise the state, the counter
and `Except.ok a` / `Except.error ()` for `Ok(a)` / `Err(_)` -/
def Out.toOption {α : Type} : Out α → Option (St × Nat × Except Unit α)
  | .ok s k a => some (s, k, .ok a)
  | .err s k => some (s, k, .error ())
  | .hang _ _ => none

/-! ## the underlying file -/

def zeros (n : Nat) : List Nat := List.replicate n 0

/-- `File::set_len n`: truncate, or extend with zeros -/
def resize (d : List Nat) (n : Nat) : List Nat := d.take n ++ zeros (n - d.length)

/-- `seek(Start off); write_all bs` on the underlying file (a hole is filled with zeros; writing
nothing changes nothing, not even the length) -/
def diskWrite (d : List Nat) (off : Nat) (bs : List Nat) : List Nat :=
  if bs.isEmpty then d
  else d.take off ++ zeros (off - d.length) ++ bs ++ d.drop (off + bs.length)

/-! ## sizing arithmetic (lib.rs 789–816, 1233, 1320–1330) -/

/-- `AutoBufferSize(pm).buffer_size(file_size)`: at least 32768; integer division first -/
def bufferSize (pm fileSize : Nat) : Nat :=
  if pm = 0 then 32768
  else
    let val := if pm ≥ 1000 then fileSize else fileSize / 1000 * pm
    if val > 32768 then val else 32768

/-- `with_capacity`: `max_num_chunks` is taken verbatim and is fixed; no chunk is loaded -/
def withCapacity (cs max : Nat) (disk : List Nat) : St :=
  { disk := disk, pos := 0, end_ := disk.length, cs := cs, max := max, auto := none, chunks := [] }

/-- `with_per_mille`: `max_num_chunks = buffer_size(end) / chunk_size + 1` -/
def withPerMille (cs pm : Nat) (disk : List Nat) : St :=
  { disk := disk, pos := 0, end_ := disk.length, cs := cs,
    max := bufferSize pm disk.length / cs + 1, auto := some pm, chunks := [] }

/-- `new` = `with_per_mille(4096, 20)` under `buf_auto_buf_size` -/
def new (disk : List Nat) : St := withPerMille 4096 20 disk

/-- `setup_auto_buf_size`: re-derive `max_num_chunks` from `end`; only to a value above the
number of resident chunks; a no-op for `with_capacity` buffers -/
def setupAutoBufSize (s : St) : St :=
  match s.auto with
  | none => s
  | some pm =>
    let val := bufferSize pm s.end_ / s.cs + 1
    if val > s.chunks.length then { s with max := val } else s

/-! ## position and length (lib.rs 110–174) -/

/-- `set_len n`: `end := n`, `pos` clamped, the disk file truncated / extended at once.
No chunk is dropped, cleaned or zeroed (the shrink branch at lib.rs 125 is unreachable). -/
def setLen (s : St) (n : Nat) : St :=
  { s with end_ := n, pos := if n < s.pos then n else s.pos, disk := resize s.disk n }

/-- common tail of `seek`: beyond the end ⇒ `set_len` first -/
def seekTo (s : St) (p : Nat) : St :=
  let s1 := if p > s.end_ then setLen s p else s
  { s1 with pos := p }

/-- `seek(Start x)`; the new position is the result -/
def seekStart (s : St) (x : Nat) : St := seekTo s x

/-- `seek(End(±x))`: **both** signs go back from the end (lib.rs 153–156).
`x > end_` underflows in the real code (panic / wrap); here `Nat` subtraction gives 0. -/
def seekEnd (s : St) (x : Nat) : St := seekTo s (s.end_ - x)

/-- `seek(End 0)` -/
def seekEnd0 (s : St) : St := seekEnd s 0

/-- `seek(Current d)`.  `pos + d < 0` underflows in the real code (panic / wrap); here 0. -/
def seekCur (s : St) (d : Int) : St := seekTo s (Int.toNat (Int.ofNat s.pos + d))

/-! ## chunks: lookup, load, write-back -/

/-- start of the chunk containing position `p` (`p & chunk_mask`) -/
def chunkStart (s : St) (p : Nat) : Nat := p / s.cs * s.cs

/-- the offset index -/
def findChunk (cs : List Chunk) (off : Nat) : Option Chunk := cs.find? (·.off == off)

/-- replace the chunk with `c`'s offset by `c` (position in the list unchanged) -/
def setChunk (cs : List Chunk) (c : Chunk) : List Chunk :=
  cs.map fun x => if x.off == c.off then c else x

/-- `Chunk::new` (lib.rs 842–882): read `min(cs, end - off)` bytes from the disk, zero fill.
`none` = `Err`: `off > end_` (underflow at 851), or the disk file is too short for `read_exact`.
Nothing is read when `off = end_`. -/
def loadChunk (s : St) (off : Nat) : Option Chunk :=
  if off > s.end_ then none
  else
    let n := min s.cs (s.end_ - off)
    if n > 0 ∧ s.disk.length < off + n then none
    else some { off := off, data := (s.disk.drop off).take n ++ zeros (s.cs - n), dirty := false }

/-- `Chunk::write` (lib.rs 928–966) at write-attempt counter `k`: new disk, new counter, new
chunk, `true` for `Ok`.  Clean ⇒ nothing.  `off > end` ⇒ nothing, **stays dirty**, `Ok`.
Otherwise the first `min(cs, end - off)` bytes are written; the flag is cleared only after the
whole write succeeded. -/
def chunkWrite (φ : Faults) (end_ : Nat) (disk : List Nat) (k : Nat) (c : Chunk) :
    List Nat × Nat × Chunk × Bool :=
  if !c.dirty then (disk, k, c, true)
  else if c.off > end_ then (disk, k, c, true)
  else
    let n := min c.data.length (end_ - c.off)
    if n = 0 then (disk, k, { c with dirty := false }, true)
    else if φ.fails k then
      (diskWrite disk c.off (c.data.take (min n (φ.prefixLen k))), k + 1, c, false)
    else (diskWrite disk c.off (c.data.take n), k + 1, { c with dirty := false }, true)

def insertOff (x : Nat) : List Nat → List Nat
  | [] => [x]
  | y :: ys => if x ≤ y then x :: y :: ys else y :: insertOff x ys

/-- ascending sort (insertion sort, structurally recursive) -/
def sortOffs : List Nat → List Nat
  | [] => []
  | x :: xs => insertOff x (sortOffs xs)

/-- write back the chunks with the listed offsets, in that order; stop at the first failure -/
def flushOffs (φ : Faults) (end_ : Nat) :
    List Nat → List Nat → Nat → List Chunk → List Nat × Nat × List Chunk × Bool
  | [], disk, k, cs => (disk, k, cs, true)
  | o :: os, disk, k, cs =>
    match findChunk cs o with
    | none => flushOffs φ end_ os disk k cs
    | some c =>
      let (disk', k', c', ok) := chunkWrite φ end_ disk k c
      if ok then flushOffs φ end_ os disk' k' (setChunk cs c')
      else (disk', k', setChunk cs c', false)

/-- `Write::flush` (lib.rs 1621–1649): every resident chunk in ascending offset order through
`Chunk::write`; stop at the first error.  `pos`, `end_`, residency unchanged.  No `set_len`, no
sync.  Result: state, counter, `true` for `Ok`. -/
def flush (φ : Faults) (s : St) (k : Nat) : St × Nat × Bool :=
  let (disk, k', cs, ok) := flushOffs φ s.end_ (sortOffs (s.chunks.map (·.off))) s.disk k s.chunks
  ({ s with disk := disk, chunks := cs }, k', ok)

/-- `clear` (lib.rs 1264–1291, `buf_pin_zero`): flush; on `Err` nothing is dropped; otherwise every
chunk except the one at offset 0 is dropped (also chunks that are still dirty because they lie
beyond `end_`). -/
def clear (φ : Faults) (s : St) (k : Nat) : St × Nat × Bool :=
  let (s1, k1, ok) := flush φ s k
  if ok then ({ s1 with chunks := s1.chunks.filter (·.off == 0) }, k1, true) else (s1, k1, false)

/-- `Drop`: `let _ = self.flush()` -/
def drop_ (φ : Faults) (s : St) (k : Nat) : St × Nat :=
  let (s1, k1, _) := flush φ s k
  (s1, k1)

/-- `add_chunk` (lib.rs 1396–1417) for an aligned offset that is not resident.  One unit of fuel
per (re-)entry.  Full ⇒ `setup_auto_buf_size`; room ⇒ load and push; no room ⇒ `remove_chunks`
(= `clear` + `setup_auto_buf_size`) and re-enter.  Out of fuel ⇒ `hang`. -/
def addChunk (φ : Faults) : Nat → St → Nat → Nat → Out Chunk
  | 0, s, k, _ => .hang s k
  | fuel + 1, s, k, off =>
    let s := if s.chunks.length == s.max then setupAutoBufSize s else s
    if s.chunks.length < s.max then
      match loadChunk s off with
      | none => .err s k
      | some c => .ok { s with chunks := s.chunks ++ [c] } k c
    else
      let (s1, k1, ok) := clear φ s k
      if ok then addChunk φ fuel (setupAutoBufSize s1) k1 off else .err s1 k1

/-- Two entries of `add_chunk` decide everything: after one successful `remove_chunks` at most the
offset-0 chunk is resident and it is clean; if there is still no room, a second `remove_chunks`
changes nothing (no write attempt, nothing dropped, same `max`), so the third entry sees the state
of the second one — the real code recurses forever.  Hence `addChunk φ (n + 2) = addChunk φ 2` on
every input, and `hang` is returned exactly when the real call does not return. -/
def fetchFuel : Nat := 2

/-- `fetch_chunk(p)`: the resident chunk containing `p`, loading (and evicting) if necessary -/
def fetch (φ : Faults) (s : St) (k : Nat) (p : Nat) : Out Chunk :=
  let off := chunkStart s p
  match findChunk s.chunks off with
  | some c => .ok s k c
  | none => addChunk φ fetchFuel s k off

/-- `prepare(p)` -/
def prepare (φ : Faults) (s : St) (k : Nat) (p : Nat) : Out Unit :=
  (fetch φ s k p).bind fun s k _ => .ok s k ()

/-! ## reads and writes (lib.rs 1533–1619, 219–449, 471–786) -/

/-- `Read::read` into a buffer of `n` bytes: the fetch happens even for `n = 0`; never crosses the
chunk boundary; **does not look at `end_`** (zero padding or stale bytes beyond it; `pos` may pass
`end_`).  Result: the bytes actually returned. -/
def read (φ : Faults) (s : St) (k : Nat) (n : Nat) : Out (List Nat) :=
  (fetch φ s k s.pos).bind fun s k c =>
    let st := s.pos - c.off
    let m := min n (s.cs - st)
    .ok { s with pos := s.pos + m } k ((c.data.drop st).take m)

def readExactAux (φ : Faults) : Nat → St → Nat → Nat → List Nat → Out (List Nat)
  | 0, s, k, _, acc => .ok s k acc
  | fuel + 1, s, k, n, acc =>
    if n = 0 then .ok s k acc
    else (read φ s k n).bind fun s' k' bs =>
      if bs.isEmpty then .err s' k'   -- std: `Ok(0)` ⇒ `UnexpectedEof`; unreachable, a read returns ≥ 1 byte
      else readExactAux φ fuel s' k' (n - bs.length) (acc ++ bs)

/-- `read_exact` (std's default loop over `read`): nothing at all for `n = 0`; on an error in a
later chunk the earlier bytes are consumed.  Fuel `n` suffices: every `read` returns ≥ 1 byte. -/
def readExact (φ : Faults) (s : St) (k : Nat) (n : Nat) : Out (List Nat) :=
  readExactAux φ n s k n []

/-- `Write::write`: fetch, **dirty even for an empty `bs`**, copy up to the chunk boundary,
`end_ := max end_ pos`.  No disk I/O except what the fetch does.  Result: the count. -/
def write (φ : Faults) (s : St) (k : Nat) (bs : List Nat) : Out Nat :=
  (fetch φ s k s.pos).bind fun s k c =>
    let st := s.pos - c.off
    let m := min bs.length (s.cs - st)
    let c' : Chunk := { c with dirty := true, data := c.data.take st ++ bs.take m ++ c.data.drop (st + m) }
    let p := s.pos + m
    .ok { s with chunks := setChunk s.chunks c', pos := p, end_ := if s.end_ < p then p else s.end_ } k m

def writeAllAux (φ : Faults) : Nat → St → Nat → List Nat → Out Unit
  | 0, s, k, _ => .ok s k ()
  | fuel + 1, s, k, bs =>
    if bs.isEmpty then .ok s k ()
    else (write φ s k bs).bind fun s' k' m =>
      if m = 0 then .err s' k'   -- std: `Ok(0)` ⇒ `WriteZero`; unreachable
      else writeAllAux φ fuel s' k' (bs.drop m)

/-- `write_all` (std's default loop over `write`): nothing at all for an empty `bs`; earlier pieces
stay applied when a later fetch fails.  Fuel `bs.length` suffices. -/
def writeAll (φ : Faults) (s : St) (k : Nat) (bs : List Nat) : Out Unit :=
  writeAllAux φ bs.length s k bs

/-- the `SmallRead` fast paths (`read_u8/u16_le/u32_le/u64_le`, `read_exact_small`,
`read_exact_maybeslice`) for an item of `n` bytes: fetch first; if the item fits into the rest of
the chunk take it in place, else `read_exact`.  Differs from `readExact` only for `n = 0`
(a fetch happens). -/
def readSmall (φ : Faults) (s : St) (k : Nat) (n : Nat) : Out (List Nat) :=
  (fetch φ s k s.pos).bind fun s k c =>
    let st := s.pos - c.off
    if st + n ≤ s.cs then .ok { s with pos := s.pos + n } k ((c.data.drop st).take n)
    else readExact φ s k n

/-- the `SmallWrite` fast paths (`write_u8/u16_le/u32_le/u64_le`, `write_all_small`,
`write_zero`, `write_u64_le_slice*`): fetch first; if the item fits: dirty, copy, advance; else
`write_all`.  Differs from `writeAll` only for an empty item (fetch + dirty). -/
def writeSmall (φ : Faults) (s : St) (k : Nat) (bs : List Nat) : Out Unit :=
  (fetch φ s k s.pos).bind fun s k c =>
    let st := s.pos - c.off
    if st + bs.length ≤ s.cs then
      let c' : Chunk := { c with dirty := true, data := c.data.take st ++ bs ++ c.data.drop (st + bs.length) }
      let p := s.pos + bs.length
      .ok { s with chunks := setChunk s.chunks c', pos := p, end_ := if s.end_ < p then p else s.end_ } k ()
    else writeAll φ s k bs

def fillAux (φ : Faults) : Nat → St → Nat → Nat → Nat → Out Unit
  | 0, s, k, _, _ => .ok s k ()
  | fuel + 1, s, k, curr, endPos =>
    if curr < endPos then
      (fetch φ s k curr).bind fun s' k' _ =>
        if s'.chunks.length < s'.max then fillAux φ fuel s' k' (curr + s'.cs) endPos else .ok s' k' ()
    else .ok s k ()

/-- `read_fill_buffer` (lib.rs 86–102): `seek(End 0)` (so `pos := end_`), then fetch chunks 0, cs,
2cs, … until the end is passed or the cache is full.  Fuel `end_ / cs + 1` suffices (`cs > 0`). -/
def readFillBuffer (φ : Faults) (s : St) (k : Nat) : Out Unit :=
  let s1 := seekEnd0 s
  fillAux φ (s1.end_ / s1.cs + 1) s1 k 0 s1.end_

/-- `sync_all` / `sync_data`: flush, then (not modelled) the OS sync -/
def sync (φ : Faults) (s : St) (k : Nat) : St × Nat × Bool := flush φ s k

/-! ## the abstraction function -/

/-- the byte a buffered read at `i` sees: the resident chunk's byte if the chunk is resident,
else the disk byte, 0 beyond the disk -/
def St.byteAt (s : St) (i : Nat) : Nat :=
  match findChunk s.chunks (chunkStart s i) with
  | some c => c.data.getD (i - c.off) 0
  | none => s.disk.getD i 0

/-- the logical content: `end_` bytes -/
def St.logical (s : St) : List Nat := (List.range s.end_).map s.byteAt

end Abyss.RaBuf
