/-!
# vu64 0.1.11 — hand model of `encoded_len`, `encode`, `decode`

Bytes are `Nat`s below 256, byte strings are `List Nat`.
Format: a value that needs `L` bytes (1 ≤ L ≤ 9) is written as
* `L = 1`     : `[v]`                                   (`v < 2^7`)
* `2 ≤ L ≤ 7` : first byte = `L-1` one bits, a zero bit, the low `8-L` bits of `v`;
                then `L-1` bytes: `v / 2^(8-L)` little endian
* `L = 8`     : `0xFE`, then 7 bytes `v` little endian   (`v < 2^56`)
* `L = 9`     : `0xFF`, then 8 bytes `v` little endian
-/
namespace Abyss.Vu64

/-- `vu64::encoded_len` (table lookup on the number of leading zeros). -/
def encodedLen (v : Nat) : Nat :=
  if v < 2^7 then 1 else if v < 2^14 then 2 else if v < 2^21 then 3 else if v < 2^28 then 4
  else if v < 2^35 then 5 else if v < 2^42 then 6 else if v < 2^49 then 7 else if v < 2^56 then 8
  else 9

/-- `k` little-endian bytes of `v`. -/
def leBytes (v : Nat) : Nat → List Nat
  | 0 => []
  | k+1 => (v % 256) :: leBytes (v / 256) k

/-- value of little-endian bytes. -/
def ofLeBytes : List Nat → Nat
  | [] => 0
  | b :: bs => b + 256 * ofLeBytes bs

/-- the `L-1` leading one bits of the first byte: `256 - 2^(9-L)`. -/
def prefixOnes (L : Nat) : Nat := 256 - 2^(9 - L)

/-- `vu64::encode`. -/
def encode (v : Nat) : List Nat :=
  let L := encodedLen v
  if L = 1 then [v]
  else if L ≤ 7 then (prefixOnes L + v % 2^(8-L)) :: leBytes (v / 2^(8-L)) (L-1)
  else if L = 8 then 0xFE :: leBytes v 7
  else 0xFF :: leBytes v 8

/-- `vu64::decoded_len`: number of leading one bits of the first byte, plus one. -/
def decodedLen (b : Nat) : Nat :=
  if b < 0x80 then 1 else if b < 0xC0 then 2 else if b < 0xE0 then 3 else if b < 0xF0 then 4
  else if b < 0xF8 then 5 else if b < 0xFC then 6 else if b < 0xFE then 7 else if b < 0xFF then 8
  else 9

/-- decode one vu64 from the front of `bs`: the value and the rest.
`none` when truncated (the redundant-encoding check of the crate is not modelled: the
files only ever contain what `encode` wrote). -/
def decode (bs : List Nat) : Option (Nat × List Nat) :=
  match bs with
  | [] => none
  | b :: rest =>
    let L := decodedLen b
    if rest.length < L - 1 then none
    else
      let follow := ofLeBytes (rest.take (L-1))
      let v := if L = 1 then b
               else if L ≤ 7 then follow * 2^(8-L) + b % 2^(8-L)
               else follow
      some (v, rest.drop (L-1))

end Abyss.Vu64
