import Abyss.Buf
/-!
# Database-level `sync_all` / `sync_data` (`FileDbInner::applay_all`)

The database object applies the call to every open map of every key type — the five per-type
registries in the fixed order bytes, string, i64, u64, vu64, each in name order — and stops at
the first error (`?`). In the model the open maps are a list of `(name, MapBuf)` already in that
order; fault schedules are per map.
-/
namespace Abyss.Buf

/-- apply `flushLike` to every map in order; stop at the first failure.
Returns the new buffers and whether every call returned Ok. -/
def dbSync (kind : SyncKind) : List (String × MapBuf × Faults) → List (String × MapBuf × Faults) × Bool
  | [] => ([], true)
  | (n, m, φ) :: rest =>
    let r := m.flushLike φ kind
    if r.2.1 then
      let (rest', ok) := dbSync kind rest
      ((n, r.1, φ) :: rest', ok)
    else ((n, r.1, φ) :: rest, false)

end Abyss.Buf
