import Abyss.Inv
/-!
# Executable twins of the invariants (`checkWF`, `checkInv`)

Used by the correspondence runs on every model state and, through `parse`, on the
implementation's real files. Each returns the name of the first violated clause.
-/
namespace Abyss
variable {α : Type}

def tiledB : List (Nat × Slot α) → Nat → Nat → Bool
  | [], a, b => a == b
  | (o, s) :: rest, a, b => o == a && decide (0 < s.size) && tiledB rest (a + s.size) b

def legalSzB (c : FileCfg) (sz : Nat) : Bool := c.sizeAry.contains sz || (decide (1024 ≤ sz) && sz % 128 == 0)

def nodupB (l : List Nat) : Bool :=
  match l with
  | [] => true
  | x :: xs => !xs.contains x && nodupB xs

def RecFile.checkWF (c : FileCfg) (f : RecFile α) : Option String :=
  if !tiledB f.slots c.headerSz f.end_ then some "tiled"
  else if f.heads.length != 16 then some "heads_len"
  else if !(f.slots.all fun p => legalSzB c p.2.size) then some "sizes"
  else
    let lists := (List.range 16).map fun i => f.freeList i
    if lists.any (·.isNone) then some "lists-broken"
    else
      let ls := lists.map (·.getD [])
      if !(ls.all nodupB) then some "lists-nodup"
      else if !((List.range 16).all fun i => (ls.getD i []).all fun o =>
          match f.get o with
          | some (.free sz _) => RecFile.headIdx c sz == i
          | _ => false) then some "lists-class"
      else if !(f.slots.all fun p => match p.2 with
          | .free sz _ => (ls.getD (RecFile.headIdx c sz) []).contains p.1
          | _ => true) then some "onlist"
      else none

def Store.checkInv (kt : KeyType) (s : Store) : Option String :=
  match RecFile.checkWF keyCfg s.kf, RecFile.checkWF valCfg s.vf with
  | some e, _ => some ("key:" ++ e)
  | _, some e => some ("val:" ++ e)
  | none, none =>
    if s.n == 0 then some "npos" else
    if !(s.heads.all fun p => p.1 < s.n || p.2 == 0) then some "heads_lt" else
    if !((s.heads.map (·.1) ++ s.bits.map (·.1)).all fun b => s.bitOf b == decide (s.headOf b ≠ 0)) then some "bits_ok" else
    let buckets := (s.heads.map (·.1)).eraseDups
    let chains := buckets.map fun b => (b, s.chain b)
    if chains.any (·.2.isNone) then some "chains-broken" else
    let chs := chains.map fun p => (p.1, p.2.getD [])
    if !(chs.all fun p => nodupB (p.2.map (·.1))) then some "chains-nodup" else
    if !(chs.all fun p => p.2.all fun q => bucketOf q.2.key s.n == p.1) then some "chains-bucket" else
    let usedK := s.kf.slots.filterMap fun p => match p.2 with | .used _ r => some (p.1, r) | _ => none
    if !(usedK.all fun p => ((chs.find? (·.1 == bucketOf p.2.key s.n)).map (·.2)).getD [] |>.any (·.1 == p.1)) then some "on_chain" else
    if !(usedK.all fun p => match kt with
        | .vu64 => (match Vu64.decode p.2.key with | some (x, []) => Vu64.encode x == p.2.key | _ => false)
        | _ => true) then some "keys_ok" else
    let keys := usedK.map (·.2.key)
    if keys.eraseDups.length != keys.length then some "keys_inj" else
    if !(usedK.all fun p => (s.vf.used p.2.valOff).isSome) then some "val_used" else
    if !nodupB (usedK.map (·.2.valOff)) then some "val_inj" else
    let usedV := s.vf.slots.filterMap fun p => match p.2 with | .used _ _ => some p.1 | _ => none
    if !(usedV.all fun vo => usedK.any (·.2.valOff == vo)) then some "val_owned" else
    if s.count != usedK.length then some "count_ok" else none

end Abyss
