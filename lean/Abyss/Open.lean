import Abyss.Render
/-!
# Opening existing files: the header checks (`check_keyrecf_header`, `check_valrecf_header`,
`check_htxf_header`)

An existing (non-empty) file is accepted iff its first 8 bytes are the file signature, the next
8 bytes are the type signature of the key type it is opened as, and the `u64` at offset 16 is
zero (key / value file: a reserved field) resp. non-zero (table file: the bucket count).
The key file is checked first, then the value file, then the table file.
-/
namespace Abyss

def recHeaderAccepts (sig1 : List Nat) (kt : KeyType) (file : List Nat) : Bool :=
  file.take 8 == sig1 && (file.drop 8).take 8 == kt.sig && Vu64.ofLeBytes ((file.drop 16).take 8) == 0

def htxHeaderAccepts (kt : KeyType) (file : List Nat) : Bool :=
  file.take 8 == Gen.htxSig1 && (file.drop 8).take 8 == kt.sig && Vu64.ofLeBytes ((file.drop 16).take 8) != 0

/-- does `open` as key type `kt` accept these (non-empty) files? -/
def openAccepts (kt : KeyType) (img : Image) : Bool :=
  recHeaderAccepts Gen.keySig1 kt img.key && recHeaderAccepts Gen.valSig1 kt img.val &&
    htxHeaderAccepts kt img.htx

/-- set byte `pos` of a file to `b` -/
def mutateByte (file : List Nat) (pos b : Nat) : List Nat := file.set pos b

/-- which file of the image is mutated -/
inductive WhichFile where
  | htx | key | val
  deriving DecidableEq, Repr

def Image.mutate (img : Image) (f : WhichFile) (pos b : Nat) : Image :=
  match f with
  | .htx => { img with htx := mutateByte img.htx pos b }
  | .key => { img with key := mutateByte img.key pos b }
  | .val => { img with val := mutateByte img.val pos b }

end Abyss
