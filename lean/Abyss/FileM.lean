import Abyss.Vu64
/-!
# Byte-level file monad for code translated from `vfile.rs` / `piece.rs`

The functions of `VarFile` that the translator (`tools/rs2lean.py`) turns into Lean run in
`FileM.M`: a state monad over a flat file (bytes + cursor) with failure.  The flat-file view of a
buffered file is justified by `RaBuf.run_refines_flat` (every history of seek / read / write on a
`rabuf` buffer behaves like the flat byte array, for every chunk size and capacity).
`none` = the real call returns `Err` / panics / reads past the end of the file (the crate never
does on a healthy file) / a loop ran out of fuel.

Bottom primitives (hand-written here; everything above them is generated):
`seek`, `seekEnd`, `seekCur`, `seekBack`, `seekPosition`, `readU8`, `writeU8`, `readU64Le`, `writeU64Le`, `writeZero`,
`readVu64`, `writeVu64`, `writeBytes` (`write_all`), `readBytes` (`read_exact_maybeslice`), `readPad` (`read_exact` into a
local array: std's default loop over rabuf's `read`), `setLen` (`set_len`), `readFill` (`read_fill_buffer` of the buffer).

`readU8` / `readU64Le` (the `SmallRead` fast paths `read_u8`, `read_u64_le`) do **not** fail at the end of the
file: they do not look at it (`RaBuf.readSmall`), what they find beyond it is the zero padding of the chunk.
The hash-table file relies on that: `write_key_piece_offset` reads the bitmap byte before it exists in a table
of fewer than 8 buckets, `next_key_piece_offset` reads 8 bitmap bytes from any byte of the bitmap.
-/
namespace Abyss.FileM

structure FSt where
  bytes : List Nat
  pos : Nat
  deriving Repr, DecidableEq

/-- state + failure -/
def M (α : Type) : Type := FSt → Option (α × FSt)

instance : Monad M where
  pure a := fun s => some (a, s)
  bind m f := fun s => match m s with
    | none => none
    | some (a, s') => f a s'

def fail {α : Type} : M α := fun _ => none
def get : M FSt := fun s => some (s, s)

/-- overwrite / extend at the cursor and advance it -/
def writeBytes (bs : List Nat) : M Unit := fun s =>
  if s.pos ≤ s.bytes.length then
    some ((), { bytes := s.bytes.take s.pos ++ bs ++ s.bytes.drop (s.pos + bs.length), pos := s.pos + bs.length })
  else none

/-- read `n` bytes at the cursor and advance it; fails past the end -/
def readBytes (n : Nat) : M (List Nat) := fun s =>
  if s.pos + n ≤ s.bytes.length then some ((s.bytes.drop s.pos).take n, { s with pos := s.pos + n })
  else none

/-- `seek(SeekFrom::Start(p))`: beyond the end the file is extended with zeros at once -/
def seek (p : Nat) : M Nat := fun s =>
  some (p, { bytes := s.bytes ++ List.replicate (p - s.bytes.length) 0, pos := p })

/-- `seek(SeekFrom::End(0))`: the cursor goes to the end of the file, which is the result -/
def seekEnd : M Nat := fun s => some (s.bytes.length, { s with pos := s.bytes.length })

/-- `seek(SeekFrom::Current(n))` for `n ≥ 0` (rabuf: the same tail as `Start`, see `RaBuf.seekCur`) -/
def seekCur (n : Nat) : M Nat := fun s => seek (s.pos + n) s

/-- `stream_position()` -/
def seekPosition : M Nat := fun s => some (s.pos, s)

/-- `seek(SeekFrom::Current(-n))`: rabuf computes `pos - n` (an underflow is a panic / a wrap-around:
failure), then the same tail as `Start` -/
def seekBack (n : Nat) : M Nat := fun s => if n ≤ s.pos then seek (s.pos - n) s else none

/-- the `SmallRead` fast paths of rabuf (`read_u8`, `read_u64_le`) for an item of `n` bytes (`RaBuf.readSmall`):
the item is taken out of the chunk of the cursor without a look at the end of the file; beyond the end the chunk
holds its zero padding (`Chunk::new`: "zero fill"; nothing stale: the files of this crate do not shrink), and the
cursor passes the end (the callers seek before they write).  Inside the file this is `readBytes n`.
The same holds for `std::io::Read::read_exact` on the `VarFile` (the header checks of `open`): `impl Read for VarFile` has only
`read` = rabuf's `read`, which copies out of the chunk of the cursor up to the chunk boundary, never returns 0 bytes and does not
look at the end of the file either (`RaBuf.read`, `RaBuf.readExact`): no `UnexpectedEof` on a short file, the buffer is
filled with the zero padding.
Not modelled (failure): a cursor that is already beyond the end. -/
def readPad (n : Nat) : M (List Nat) := fun s =>
  if s.pos ≤ s.bytes.length then
    let bs := (s.bytes.drop s.pos).take n
    some (bs ++ List.replicate (n - bs.length) 0, { s with pos := s.pos + n })
  else none

/-- `set_len(n)` of the buffer (rabuf `FileSetLen::set_len`, model `RaBuf.setLen`): the file is truncated to `n` bytes or
extended with zeros up to `n`; a cursor beyond the new end is clamped to it, otherwise it stays.
Extending is exact.  Shrinking is exact for the bytes of the file, but rabuf keeps the cut-off bytes in its resident chunks
(no chunk is dropped or zeroed), so a later `readPad` beyond the new end would see them instead of zeros: that is not
modelled.  The translated code calls `set_len` only to extend (the table file at creation). -/
def setLen (n : Nat) : M Unit := fun s =>
  some ((), { bytes := s.bytes.take n ++ List.replicate (n - s.bytes.length) 0, pos := if n < s.pos then n else s.pos })

/-- `read_u8` -/
def readU8 : M Nat := do
  let bs ← readPad 1
  pure (bs.headD 0)

/-- `write_u8` (the value is a `u8`) -/
def writeU8 (v : Nat) : M Unit := writeBytes [v % 256]

/-- `read_u64_le` -/
def readU64Le : M Nat := do
  let bs ← readPad 8
  pure (Vu64.ofLeBytes bs)

/-- `write_u64_le` -/
def writeU64Le (v : Nat) : M Unit := writeBytes (Vu64.leBytes v 8)

/-- `write_zero(n)` -/
def writeZero (n : Nat) : M Unit := writeBytes (List.replicate n 0)

/-- `read_and_decode_vu64`: first byte gives the length -/
def readVu64 : M Nat := fun s =>
  match Vu64.decode (s.bytes.drop s.pos) with
  | some (v, rest) => some (v, { s with pos := s.bytes.length - rest.length })
  | none => none

/-- `encode_and_write_vu64` -/
def writeVu64 (v : Nat) : M Unit := writeBytes (Vu64.encode v)

/-- number of bytes of the file (used as loop fuel: a free list has fewer slots than the file has bytes) -/
def fileLen : M Nat := fun s => some (s.bytes.length, s)

/-- `read_fill_buffer()` of the buffer (rabuf 0.1.20 `BufFile::read_fill_buffer`, lib.rs 87–101): `self.seek(SeekFrom::End(0))?`,
then `fetch_chunk` for the offsets 0, chunk size, 2 × chunk size, … until the end of the file is passed or the buffer is full.
In the flat-file view: the cursor goes to the end of the file and every byte stays what it is — which chunks are resident (loaded,
written back, evicted on the way) is not part of the view.
ASSUMPTION (the same as for every primitive of this file, `RaBuf.run_refines_flat`): the buffered file behaves like the flat byte
array.  For this call it is proved on the chunk-level model: `RaBuf.readFillBuffer_flat` (`Abyss/Lemmas/ReadFillL.lean`) — when
`RaBuf.readFillBuffer` returns (`Ok`, or `Err` under a fault schedule), the flat view of the buffer is this function's result.  Not
modelled: an I/O error of a chunk load / write-back (`Err`: the flat file is the same, the value differs) and a call that does
not return (the known finding `C07:permille-hang`, excluded for the configurations the crate produces). -/
def readFill : M Unit := fun s => some ((), { s with pos := s.bytes.length })

end Abyss.FileM
