import Abyss.Vu64
/-!
# Byte-level file monad for code translated from `vfile.rs` / `piece.rs`

The functions of `VarFile` that the translator (`tools/rs2lean.py`) turns into Lean run in
`FileM.M`: a state monad over a flat file (bytes + cursor) with failure.  The flat-file view of a
buffered file is justified by `RaBuf.run_refines_flat` (every history of seek / read / write on a
`rabuf` buffer behaves like the flat byte array, for every chunk size and capacity).
`none` = the real call returns `Err` / panics / reads past the end of the file (the crate never
does on a healthy file) / a loop ran out of fuel.

Bottom primitives (hand-written here; everything above them is generated):
`seek`, `seekEnd`, `seekCur`, `seekPosition`, `readU8`, `readU64Le`, `writeU64Le`, `writeZero`, `readVu64`,
`writeVu64`, `writeBytes` (`write_all`), `readBytes` (`read_exact_maybeslice`).
-/
namespace Abyss.FileM

structure FSt where
  bytes : List Nat
  pos : Nat
  deriving Repr, DecidableEq

/-- state + failure -/
def M (α : Type) : Type := FSt → Option (α × FSt)

instance : Monad M where
  pure a := fun s => some (a, s)
  bind m f := fun s => match m s with
    | none => none
    | some (a, s') => f a s'

def fail {α : Type} : M α := fun _ => none
def get : M FSt := fun s => some (s, s)

/-- overwrite / extend at the cursor and advance it -/
def writeBytes (bs : List Nat) : M Unit := fun s =>
  if s.pos ≤ s.bytes.length then
    some ((), { bytes := s.bytes.take s.pos ++ bs ++ s.bytes.drop (s.pos + bs.length), pos := s.pos + bs.length })
  else none

/-- read `n` bytes at the cursor and advance it; fails past the end -/
def readBytes (n : Nat) : M (List Nat) := fun s =>
  if s.pos + n ≤ s.bytes.length then some ((s.bytes.drop s.pos).take n, { s with pos := s.pos + n })
  else none

/-- `seek(SeekFrom::Start(p))`: beyond the end the file is extended with zeros at once -/
def seek (p : Nat) : M Nat := fun s =>
  some (p, { bytes := s.bytes ++ List.replicate (p - s.bytes.length) 0, pos := p })

/-- `seek(SeekFrom::End(0))`: the cursor goes to the end of the file, which is the result -/
def seekEnd : M Nat := fun s => some (s.bytes.length, { s with pos := s.bytes.length })

/-- `seek(SeekFrom::Current(n))` for `n ≥ 0` (rabuf: the same tail as `Start`, see `RaBuf.seekCur`) -/
def seekCur (n : Nat) : M Nat := fun s => seek (s.pos + n) s

/-- `stream_position()` -/
def seekPosition : M Nat := fun s => some (s.pos, s)

/-- `read_u8` -/
def readU8 : M Nat := do
  let bs ← readBytes 1
  pure (bs.headD 0)

/-- `read_u64_le` -/
def readU64Le : M Nat := do
  let bs ← readBytes 8
  pure (Vu64.ofLeBytes bs)

/-- `write_u64_le` -/
def writeU64Le (v : Nat) : M Unit := writeBytes (Vu64.leBytes v 8)

/-- `write_zero(n)` -/
def writeZero (n : Nat) : M Unit := writeBytes (List.replicate n 0)

/-- `read_and_decode_vu64`: first byte gives the length -/
def readVu64 : M Nat := fun s =>
  match Vu64.decode (s.bytes.drop s.pos) with
  | some (v, rest) => some (v, { s with pos := s.bytes.length - rest.length })
  | none => none

/-- `encode_and_write_vu64` -/
def writeVu64 (v : Nat) : M Unit := writeBytes (Vu64.encode v)

/-- number of bytes of the file (used as loop fuel: a free list has fewer slots than the file has bytes) -/
def fileLen : M Nat := fun s => some (s.bytes.length, s)

end Abyss.FileM
