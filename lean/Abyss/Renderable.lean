import Abyss.Parse
import Abyss.Inv
/-!
# `Renderable`: the field bounds under which the byte image determines the state

The byte codecs are invertible only while every stored number fits its field (`u64`/`u32` in the
Rust code) and every record fits its slot.  These are explicit, decidable hypotheses of
`parse_render`; `renderableB` is their executable twin (evaluated on every model state of the
correspondence runs).  That records fit their slots is theorem C09.
-/
namespace Abyss

def slotOKKey : Slot KeyRec → Prop
  | .used sz r => sz < 2^35 ∧ r.key.length < 2^31 ∧ r.valOff < 2^63 ∧ r.next < 2^63 ∧ 8 ∣ r.valOff ∧ 8 ∣ r.next ∧
      (keyContent sz r).length ≤ sz
  | .free sz nx => sz < 2^35 ∧ nx < 2^64 ∧ (freeContent sz nx).length ≤ sz

def slotOKVal : Slot (List Nat) → Prop
  | .used sz v => sz < 2^35 ∧ v.length < 2^31 ∧ (valContent sz v).length ≤ sz
  | .free sz nx => sz < 2^35 ∧ nx < 2^64 ∧ (freeContent sz nx).length ≤ sz

structure Store.Renderable (kt : KeyType) (s : Store) : Prop where
  sig_len : kt.sig.length = 8
  n_lt : s.n < 2^60
  count_lt : s.count < 2^64
  heads_lt : ∀ b, s.headOf b < 2^64
  kf_heads : ∀ h ∈ s.kf.heads, h < 2^64
  vf_heads : ∀ h ∈ s.vf.heads, h < 2^64
  kslots : ∀ p ∈ s.kf.slots, slotOKKey p.2
  vslots : ∀ p ∈ s.vf.slots, slotOKVal p.2
  htx_len : Gen.htxHeaderSz + 8 * s.n ≤ s.htxEnd
  bits_in : ∀ b, s.bitOf b = true → b < 8 * (s.htxEnd - (Gen.htxHeaderSz + 8 * s.n))

def slotOKKeyB : Slot KeyRec → Bool
  | .used sz r => decide (sz < 2^35) && decide (r.key.length < 2^31) && decide (r.valOff < 2^63) &&
      decide (r.next < 2^63) && r.valOff % 8 == 0 && r.next % 8 == 0 && decide ((keyContent sz r).length ≤ sz)
  | .free sz nx => decide (sz < 2^35) && decide (nx < 2^64) && decide ((freeContent sz nx).length ≤ sz)

def slotOKValB : Slot (List Nat) → Bool
  | .used sz v => decide (sz < 2^35) && decide (v.length < 2^31) && decide ((valContent sz v).length ≤ sz)
  | .free sz nx => decide (sz < 2^35) && decide (nx < 2^64) && decide ((freeContent sz nx).length ≤ sz)

def Store.renderableB (s : Store) : Bool :=
  decide (s.n < 2^60) && decide (s.count < 2^64) && s.heads.all (fun p => decide (p.2 < 2^64)) &&
  s.kf.heads.all (fun h => decide (h < 2^64)) && s.vf.heads.all (fun h => decide (h < 2^64)) &&
  s.kf.slots.all (fun p => slotOKKeyB p.2) && s.vf.slots.all (fun p => slotOKValB p.2) &&
  decide (Gen.htxHeaderSz + 8 * s.n ≤ s.htxEnd) &&
  s.bits.all (fun p => !s.bitOf p.1 || decide (p.1 < 8 * (s.htxEnd - (Gen.htxHeaderSz + 8 * s.n))))

end Abyss
