/-!
# The monad of the generated flush / sync functions (`Abyss/Gen/FlushOps.lean`)

`FileDbXxxInner::{flush, sync_all, sync_data}` (src/filedb/inner/dbxxx.rs) only touch the three buffered files through
one action each (`self.val_file.flush()?` …) and the `dirty` flag.  `tools/rs2lean.py` translates them statement by
statement into `FlushM β`: a state monad over the map (`MapSt β`: three files of an arbitrary type `β` and the flag)
and a fault counter, with failure (`Result`: `none` = `Err`; what was done before the error stays done).  The per-file
actions are parameters (`FilePrims β`), so the generated functions can be instantiated with any buffer model, e.g. the
chunk-level `RaBuf` (`Abyss/Lemmas/FlushGenL.lean`).  Second half: the database object — the five registries of
`FileDbInner` (`DbReg μ`, maps of any state type `μ`) and the monad `DbRegM μ` of the generated `Gen.dbApplyAll` /
`Gen.dbSyncAll` / `Gen.dbSyncData` (from `FileDbInner::{applay_all, sync_all, sync_data}`).  Hand-written; imports nothing;
not imported by the model files.
-/
namespace Abyss

/-- action of one buffered file: (file, fault counter) ↦ (file, fault counter, `true` = `Ok`) -/
abbrev FileAct (β : Type) : Type := β → Nat → β × Nat × Bool

/-- `flush`, `sync_all`, `sync_data` of one buffered file (`VarFile::…` = `self.buf_file.…`) -/
structure FilePrims (β : Type) where
  flush : FileAct β
  syncAll : FileAct β
  syncData : FileAct β

/-- `FileDbXxxInner`: the three files and the dirty flag -/
structure MapSt (β : Type) where
  val : β
  key : β
  htx : β
  dirty : Bool
  deriving BEq, Repr

/-- state = the map and the fault counter; value `none` = `Err` (the state reached so far is kept) -/
def FlushM (β α : Type) : Type := MapSt β → Nat → Option α × MapSt β × Nat

namespace FlushM
variable {β : Type}

instance : Monad (FlushM β) where
  pure a := fun m k => (some a, m, k)
  bind x f := fun m k =>
    match x m k with
    | (none, m', k') => (none, m', k')
    | (some a, m', k') => f a m' k'

/-- `self.is_dirty()` (= `self.dirty`, pinned) -/
def isDirty : FlushM β Bool := fun m k => (some m.dirty, m, k)

/-- `self.dirty = b;` -/
def setDirty (b : Bool) : FlushM β Unit := fun m k => (some (), { m with dirty := b }, k)

/-- `self.val_file.<act>()?` -/
def onVal (act : FileAct β) : FlushM β Unit := fun m k =>
  let r := act m.val k
  (if r.2.2 then some () else none, { m with val := r.1 }, r.2.1)

/-- `self.key_file.<act>()?` -/
def onKey (act : FileAct β) : FlushM β Unit := fun m k =>
  let r := act m.key k
  (if r.2.2 then some () else none, { m with key := r.1 }, r.2.1)

/-- `self.htx_file.<act>()?` -/
def onHtx (act : FileAct β) : FlushM β Unit := fun m k =>
  let r := act m.htx k
  (if r.2.2 then some () else none, { m with htx := r.1 }, r.2.1)

/-- run a `Result<()>` function: new map, new fault counter, `true` = `Ok(())` -/
def run (x : FlushM β Unit) (m : MapSt β) (k : Nat) : MapSt β × Nat × Bool :=
  let r := x m k
  (r.2.1, r.2.2, r.1.isSome)

end FlushM

/-- the shape of `flush` / `sync_all` / `sync_data` of a map as the hand models state it (`RaBuf.MapRb.flushLike`,
`Buf.MapBuf.flushLike`): only if dirty; value file, key file, table file in that order, stop at the first error;
the flag is cleared only after all three succeeded.  The three generated functions reduce to it
(`Abyss/Lemmas/FlushGenL.lean`). -/
def MapSt.flushLike {β : Type} (act : FileAct β) (m : MapSt β) (k : Nat) : MapSt β × Nat × Bool :=
  if !m.dirty then (m, k, true) else
  let rv := act m.val k
  if !rv.2.2 then ({ m with val := rv.1 }, rv.2.1, false) else
  let rk := act m.key rv.2.1
  if !rk.2.2 then ({ m with val := rv.1, key := rk.1 }, rk.2.1, false) else
  let rh := act m.htx rk.2.1
  if !rh.2.2 then ({ val := rv.1, key := rk.1, htx := rh.1, dirty := true }, rh.2.1, false) else
  ({ val := rv.1, key := rk.1, htx := rh.1, dirty := false }, rh.2.1, true)

/-! ## The database object: the five registries of `FileDbInner` (`Gen.dbApplyAll`, `Gen.dbSyncAll`, `Gen.dbSyncData`)

`FileDbInner` (src/filedb/inner/mod.rs) keeps one `BTreeMap<String, FileDbMap<…>>` per key type.  A map handle
`FileDbMap<KT>` is an `Rc<RefCell<FileDbXxxInner<KT>>>`: every clone of it *is* the map, so in the model a handle is
(registry, name) and what a call does to the map is done to the entry of the registry.  The state of one map is of any
type `μ`. -/

/-- which of the five registries: `db_bytes_map`, `db_string_map`, `db_i64_map`, `db_u64_map`, `db_vu64_map` -/
inductive RegKind where
  | bytes | string | i64 | u64 | vu64
  deriving DecidableEq, Repr

/-- the five `BTreeMap<String, _>` of `FileDbInner`, each as an association list IN ASCENDING ORDER OF THE NAMES, without
repeated names (what `BTreeMap::keys()` iterates over; keeping the lists so is the caller's obligation; the generated
registry functions `Gen.dbMap<K>[WithParams]` of `Abyss/Gen/Registry.lean`, which are what fills the registries, keep them
so: `Abyss/Lemmas/RegistryGenL.lean`, `openSpec_sorted`) -/
structure DbReg (μ : Type) where
  bytes : List (String × μ)
  string : List (String × μ)
  i64 : List (String × μ)
  u64 : List (String × μ)
  vu64 : List (String × μ)

namespace DbReg
variable {μ : Type}

def get (r : DbReg μ) : RegKind → List (String × μ)
  | .bytes => r.bytes
  | .string => r.string
  | .i64 => r.i64
  | .u64 => r.u64
  | .vu64 => r.vu64

def set (r : DbReg μ) (k : RegKind) (l : List (String × μ)) : DbReg μ :=
  match k with
  | .bytes => { r with bytes := l }
  | .string => { r with string := l }
  | .i64 => { r with i64 := l }
  | .u64 => { r with u64 := l }
  | .vu64 => { r with vu64 := l }

/-- all maps in the order `applay_all` visits them: bytes, string, i64, u64, vu64, each in name order -/
def all (r : DbReg μ) : List (String × μ) := r.bytes ++ r.string ++ r.i64 ++ r.u64 ++ r.vu64

end DbReg

/-- `func: Fn(&mut dyn DbXxxBase) -> Result<()>` applied to a map: the new state of the map, `true` = `Ok(())` -/
abbrev MapAct (μ : Type) : Type := μ → μ × Bool

/-- a `Result<()>` method of a map in `FlushM` (`sync_all`, `sync_data`, `flush`) as a `MapAct` on (map, fault counter of
its files): what `|o| o.sync_all()` is for `o: &mut dyn DbXxxBase` a map handle -/
def FlushM.onMap {β : Type} (x : FlushM β Unit) : MapAct (MapSt β × Nat) := fun o =>
  let r := x.run o.1 o.2
  ((r.1, r.2.1), r.2.2)

/-- replace the state of the first entry called `name` -/
def regUpdate {μ : Type} (name : String) (m : μ) : List (String × μ) → List (String × μ)
  | [] => []
  | e :: rest => if e.1 = name then (e.1, m) :: rest else e :: regUpdate name m rest

/-- state = the registries; value `none` = `Err` / panic (the state reached so far is kept) -/
def DbRegM (μ α : Type) : Type := DbReg μ → Option α × DbReg μ

namespace DbRegM
variable {μ : Type}

instance : Monad (DbRegM μ) where
  pure a := fun r => (some a, r)
  bind x f := fun r =>
    match x r with
    | (none, r') => (none, r')
    | (some a, r') => f a r'

/-- `self.db_<k>_map.keys().cloned().collect()`: the names, in the order of the `BTreeMap` (ascending) -/
def keys (k : RegKind) : DbRegM μ (List String) := fun r => (some ((r.get k).map (·.1)), r)

/-- `self.db_map_<k>(&name).unwrap()` (`db_map_<k>` = `self.db_<k>_map.get(name).cloned()`): the handle of the map of that
name — a clone of the `Rc`, i.e. (registry, name); `None.unwrap()` panics -/
def handle (k : RegKind) (name : String) : DbRegM μ (RegKind × String) := fun r =>
  (if (r.get k).any (·.1 = name) then some (k, name) else none, r)

/-- `func(&mut b)?` for a handle `b`: the call changes the map behind the handle, i.e. the entry of the registry -/
def call (func : MapAct μ) (h : RegKind × String) : DbRegM μ Unit := fun r =>
  match (r.get h.1).find? (·.1 = h.2) with
  | none => (none, r)
  | some e =>
    let res := func e.2
    (if res.2 then some () else none, r.set h.1 (regUpdate h.2 res.1 (r.get h.1)))

/-- run a `Result<()>` function: the registries afterwards, `true` = `Ok(())` -/
def run (x : DbRegM μ Unit) (r : DbReg μ) : DbReg μ × Bool :=
  let res := x r
  (res.2, res.1.isSome)

end DbRegM

/-- what `applay_all` amounts to on the maps in visiting order (`DbReg.all`): apply `func` to each, stop at the first
error; the maps after the failing one are untouched (`Abyss/Lemmas/FlushGenL.lean`: `dbApplyAll_eq_applyList`; the hand
model `Buf.dbSync` has this shape) -/
def applyList {μ : Type} (func : MapAct μ) : List (String × μ) → List (String × μ) × Bool
  | [] => ([], true)
  | (n, m) :: rest =>
    let r := func m
    if r.2 then
      let rr := applyList func rest
      ((n, r.1) :: rr.1, rr.2)
    else ((n, r.1) :: rest, false)

end Abyss
