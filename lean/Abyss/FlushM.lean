/-!
# The monad of the generated flush / sync functions (`Abyss/Gen/FlushOps.lean`)

`FileDbXxxInner::{flush, sync_all, sync_data}` (src/filedb/inner/dbxxx.rs) only touch the three buffered files through
one action each (`self.val_file.flush()?` …) and the `dirty` flag.  `tools/rs2lean.py` translates them statement by
statement into `FlushM β`: a state monad over the map (`MapSt β`: three files of an arbitrary type `β` and the flag)
and a fault counter, with failure (`Result`: `none` = `Err`; what was done before the error stays done).  The per-file
actions are parameters (`FilePrims β`), so the generated functions can be instantiated with any buffer model, e.g. the
chunk-level `RaBuf` (`Abyss/Lemmas/FlushGenL.lean`).  Hand-written; not imported by the model files.
-/
namespace Abyss

/-- action of one buffered file: (file, fault counter) ↦ (file, fault counter, `true` = `Ok`) -/
abbrev FileAct (β : Type) : Type := β → Nat → β × Nat × Bool

/-- `flush`, `sync_all`, `sync_data` of one buffered file (`VarFile::…` = `self.buf_file.…`) -/
structure FilePrims (β : Type) where
  flush : FileAct β
  syncAll : FileAct β
  syncData : FileAct β

/-- `FileDbXxxInner`: the three files and the dirty flag -/
structure MapSt (β : Type) where
  val : β
  key : β
  htx : β
  dirty : Bool
  deriving BEq, Repr

/-- state = the map and the fault counter; value `none` = `Err` (the state reached so far is kept) -/
def FlushM (β α : Type) : Type := MapSt β → Nat → Option α × MapSt β × Nat

namespace FlushM
variable {β : Type}

instance : Monad (FlushM β) where
  pure a := fun m k => (some a, m, k)
  bind x f := fun m k =>
    match x m k with
    | (none, m', k') => (none, m', k')
    | (some a, m', k') => f a m' k'

/-- `self.is_dirty()` (= `self.dirty`, pinned) -/
def isDirty : FlushM β Bool := fun m k => (some m.dirty, m, k)

/-- `self.dirty = b;` -/
def setDirty (b : Bool) : FlushM β Unit := fun m k => (some (), { m with dirty := b }, k)

/-- `self.val_file.<act>()?` -/
def onVal (act : FileAct β) : FlushM β Unit := fun m k =>
  let r := act m.val k
  (if r.2.2 then some () else none, { m with val := r.1 }, r.2.1)

/-- `self.key_file.<act>()?` -/
def onKey (act : FileAct β) : FlushM β Unit := fun m k =>
  let r := act m.key k
  (if r.2.2 then some () else none, { m with key := r.1 }, r.2.1)

/-- `self.htx_file.<act>()?` -/
def onHtx (act : FileAct β) : FlushM β Unit := fun m k =>
  let r := act m.htx k
  (if r.2.2 then some () else none, { m with htx := r.1 }, r.2.1)

/-- run a `Result<()>` function: new map, new fault counter, `true` = `Ok(())` -/
def run (x : FlushM β Unit) (m : MapSt β) (k : Nat) : MapSt β × Nat × Bool :=
  let r := x m k
  (r.2.1, r.2.2, r.1.isSome)

end FlushM

/-- the shape of `flush` / `sync_all` / `sync_data` of a map as the hand models state it (`RaBuf.MapRb.flushLike`,
`Buf.MapBuf.flushLike`): only if dirty; value file, key file, table file in that order, stop at the first error;
the flag is cleared only after all three succeeded.  The three generated functions reduce to it
(`Abyss/Lemmas/FlushGenL.lean`). -/
def MapSt.flushLike {β : Type} (act : FileAct β) (m : MapSt β) (k : Nat) : MapSt β × Nat × Bool :=
  if !m.dirty then (m, k, true) else
  let rv := act m.val k
  if !rv.2.2 then ({ m with val := rv.1 }, rv.2.1, false) else
  let rk := act m.key rv.2.1
  if !rk.2.2 then ({ m with val := rv.1, key := rk.1 }, rk.2.1, false) else
  let rh := act m.htx rk.2.1
  if !rh.2.2 then ({ val := rv.1, key := rk.1, htx := rh.1, dirty := true }, rh.2.1, false) else
  ({ val := rv.1, key := rk.1, htx := rh.1, dirty := false }, rh.2.1, true)

end Abyss
