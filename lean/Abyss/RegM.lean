import Abyss.FlushM
/-!
# The name registry: primitives of the generated `Abyss/Gen/Registry.lean`

`FileDbInner` (src/filedb/inner/mod.rs) keeps one `BTreeMap<String, FileDbMap<KT>>` per key type (`DbReg μ` of
`Abyss/FlushM.lean`: five association lists in ascending name order).  `FileDb::db_map_<k>_with_params` looks a name up
in the registry of its key type, and opens + inserts the map when it is not there.  `tools/rs2lean.py` translates the
lookups, the inserts, the `create_db_map*` and the `db_map_<k>[_with_params]` statement by statement into `DbRegM μ`;
this file has what the statements are made of.

**What `μ` is.**  An entry of a registry is a `FileDbMap<KT>` = `Rc<RefCell<FileDbXxxInner<KT>>>` (pinned by the
translator): a handle, and every clone of it *is* the one shared map state — there is no second copy of the state
anywhere.  `self.db_<k>_map.get(name).cloned()` clones the `Rc`, not the map.  So in the model the value of a lookup is
the entry itself (`μ`), and "two handles alias one state" is "two lookups return the same `μ`".  `μ` is abstract: the
state of a map (as in `Gen.dbApplyAll`, which acts on the entries in place), or any token that identifies the shared
cell.  Hand-written; not imported by the model files.
-/
namespace Abyss

/-- `self.db_<k>_map.get(name).cloned()` on the association list: the entry called `name` -/
def regLookup {μ : Type} (name : String) (l : List (String × μ)) : Option μ :=
  (l.find? (·.1 = name)).map (·.2)

/-- `BTreeMap::insert(name, child)` on the ascending association list: an entry of that name is replaced (the key
stays), otherwise the new entry goes in front of the first greater name -/
def regInsert {μ : Type} (name : String) (child : μ) : List (String × μ) → List (String × μ)
  | [] => [(name, child)]
  | e :: rest =>
    if e.1 = name then (e.1, child) :: rest
    else if name < e.1 then (name, child) :: e :: rest
    else e :: regInsert name child rest

namespace DbReg
variable {μ : Type}

/-- the entry `(k, name)` of the registries -/
def find (r : DbReg μ) (k : RegKind) (name : String) : Option μ := regLookup name (r.get k)

/-- the registries with `(k, name) ↦ child` -/
def add (r : DbReg μ) (k : RegKind) (name : String) (child : μ) : DbReg μ := r.set k (regInsert name child (r.get k))

end DbReg

/-- `FileDbMap::<KT>::open(self.path(), name, params)` — `Ok(Self(Rc::new(RefCell::new(FileDbXxxInner::<KT>::
open_with_params(path, ks_name, params)?))))`, pinned — as a parameter of the generated functions: which key type
(`RegKind`: the `KT` of the alias `FileDbMapDb…` the call names), which name, which parameters (`π`); `none` = `Err`
(the files `<name>.key` / `.val` / `.htx` of the directory cannot be opened / created, or carry another signature),
`some h` = the fresh `Rc<RefCell<…>>`: the handle IS the shared state of the map.  The directory itself is not part of
the registry state: one `opener` stands for the directory as it is during one call. -/
abbrev Opener (π μ : Type) : Type := RegKind → String → π → Option μ

namespace DbRegM
variable {μ : Type}

/-- `self.db_<k>_map.get(name).cloned()`: a clone of the handle, i.e. the entry itself; the registries are not changed -/
def lookup (k : RegKind) (name : String) : DbRegM μ (Option μ) := fun r => (some (r.find k name), r)

/-- `self.db_<k>_map.insert(name.to_string(), child)`: value = the entry that was there before (`BTreeMap::insert`) -/
def insert (k : RegKind) (name : String) (child : μ) : DbRegM μ (Option μ) := fun r => (some (r.find k name), r.add k name child)

/-- `FileDbMapDb…::open(self.path(), name, params)?` (the registries are not changed; `Err` = failure) -/
def openMap {π : Type} (opener : Opener π μ) (k : RegKind) (name : String) (params : π) : DbRegM μ μ := fun r =>
  (opener k name params, r)

/-- `panic!(..)` -/
def panic {α : Type} : DbRegM μ α := fun r => (none, r)

end DbRegM

/-- what `FileDb::db_map_<k>_with_params(name, params)` amounts to (`Abyss/Lemmas/RegistryGenL.lean`: each of the five
generated copies equals it at its own `k`): the handle that is registered under `(k, name)`, whatever `params`; otherwise
the handle the opener makes, registered under `(k, name)`; otherwise `Err`, nothing registered -/
def openSpec {π μ : Type} (opener : Opener π μ) (k : RegKind) (name : String) (params : π) (r : DbReg μ) : Option μ × DbReg μ :=
  match r.find k name with
  | some h => (some h, r)
  | none =>
    match opener k name params with
    | some h => (some h, r.add k name h)
    | none => (none, r)

end Abyss
