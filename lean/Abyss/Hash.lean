import Abyss.Vu64
import Abyss.Gen.Funcs
/-!
# Key hash (`HashValue::hash_value` with `MyHasher`) and key types

`#[derive(Hash)]` on the key newtypes (one `Vec<u8>` field) feeds the hasher
1. `write_length_prefix(len)` = `write(&len.to_ne_bytes())` — 8 little-endian bytes on x86-64,
2. `write(bytes)` — the key bytes in one call.
`MyHasher::write` (generated: `Gen.hasherWrite`) folds the bytes in chunks of 8, each chunk read
**big-endian**, `h := xorshift64s (h +wrap chunk)`.
(Modelled, not translated: the `std` plumbing — length prefix, one `write` per slice; validated
by facet `gen` on every run.)
-/
namespace Abyss

/-- `hash_value()` of a key with bytes `key`: the hasher is fed the length prefix (8 little-endian
bytes, one `write`) and then the key bytes (one `write`). `Gen.hasherWrite` is `MyHasher::write`
translated from the Rust source on every run. -/
def hashValue (key : List Nat) : Nat :=
  Gen.hasherWrite (Gen.hasherWrite 0 (Vu64.leBytes key.length 8)) key

/-- bucket of a key in a table of `n` buckets. -/
def bucketOf (key : List Nat) (n : Nat) : Nat := hashValue key % n

/-- the five key types. -/
inductive KeyType where
  | string | bytes | u64 | i64 | vu64
  deriving DecidableEq, Repr

/-- type signature written into the three file headers. -/
def KeyType.sig : KeyType → List Nat
  | .string => Gen.sigString
  | .bytes => Gen.sigBytes
  | .u64 => Gen.sigU64
  | .i64 => Gen.sigI64
  | .vu64 => Gen.sigVu64

/-- `KT::cmp_u8(self, stored) == Equal`; `none` = the call panics (`vu64::decode(..).unwrap()`
on bytes that are not a vu64). The five `cmp_u8` bodies are translated from the Rust source on
every run (`Gen.cmpU8*`); what they compute is stated in `Lemmas/KeyGenL.lean`. -/
def cmpKey (kt : KeyType) (mine stored : List Nat) : Option Bool :=
  (match kt with
   | .string => Gen.cmpU8String mine stored
   | .bytes => Gen.cmpU8Bytes mine stored
   | .u64 => Gen.cmpU8U64 mine stored
   | .i64 => Gen.cmpU8I64 mine stored
   | .vu64 => Gen.cmpU8Vu64 mine stored).map (fun o : Ordering => decide (o = Ordering.eq))

/-! The integer ⇄ key conversions are the generated translations of the `From` impls; their
closed forms (8 little-endian bytes, two's complement, vu64) are lemmas in `Lemmas/KeyGenL.lean`. -/

/-- `From<u64> for DbU64`: 8 little-endian bytes. -/
def u64Key (x : Nat) : List Nat := Gen.u64ToKey x
/-- `From<&DbU64> for u64`: first 8 bytes little endian, zero extended. -/
def u64OfKey (k : List Nat) : Nat := Gen.keyToU64 k
/-- `From<i64> for DbI64` (two's complement). -/
def i64Key (x : Int) : List Nat := Gen.i64ToKey x
/-- `From<&DbI64> for i64`. -/
def i64OfKey (k : List Nat) : Int := Gen.keyToI64 k
/-- `From<u64> for DbVu64`. -/
def vu64Key (x : Nat) : List Nat := Gen.vu64ToKey x
/-- `From<&DbVu64> for u64` (`none` = `unwrap` panics). -/
def vu64OfKey (k : List Nat) : Option Nat := Gen.keyToVu64 k

end Abyss
