import Abyss.Vu64
import Abyss.Gen.Funcs
/-!
# Key hash (`HashValue::hash_value` with `MyHasher`) and key types

`#[derive(Hash)]` on the key newtypes (one `Vec<u8>` field) feeds the hasher
1. `write_length_prefix(len)` = `write(&len.to_ne_bytes())` — 8 little-endian bytes on x86-64,
2. `write(bytes)` — the key bytes in one call.
`MyHasher::write` (generated: `Gen.hasherWrite`) folds the bytes in chunks of 8, each chunk read
**big-endian**, `h := xorshift64s (h +wrap chunk)`.
(Modelled, not translated: the `std` plumbing — length prefix, one `write` per slice; validated
by facet `gen` on every run.)
-/
namespace Abyss

/-- `hash_value()` of a key with bytes `key`: the hasher is fed the length prefix (8 little-endian
bytes, one `write`) and then the key bytes (one `write`). `Gen.hasherWrite` is `MyHasher::write`
translated from the Rust source on every run. -/
def hashValue (key : List Nat) : Nat :=
  Gen.hasherWrite (Gen.hasherWrite 0 (Vu64.leBytes key.length 8)) key

/-- bucket of a key in a table of `n` buckets. -/
def bucketOf (key : List Nat) (n : Nat) : Nat := hashValue key % n

/-- the five key types. -/
inductive KeyType where
  | string | bytes | u64 | i64 | vu64
  deriving DecidableEq, Repr

/-- type signature written into the three file headers. -/
def KeyType.sig : KeyType → List Nat
  | .string => Gen.sigString
  | .bytes => Gen.sigBytes
  | .u64 => Gen.sigU64
  | .i64 => Gen.sigI64
  | .vu64 => Gen.sigVu64

/-- `KT::cmp_u8(self, stored) == Equal`; `none` = the call panics (`vu64::decode(..).unwrap()`
on bytes that are not a vu64). -/
def cmpKey (kt : KeyType) (mine stored : List Nat) : Option Bool :=
  match kt with
  | .vu64 =>
    match Vu64.decode mine, Vu64.decode stored with
    | some (a, _), some (b, _) => some (decide (a = b))
    | _, _ => none
  | _ => some (decide (mine = stored))

/-- `From<u64> for DbU64` / `From<i64> for DbI64` (two's complement) : 8 little-endian bytes. -/
def u64Key (x : Nat) : List Nat := Vu64.leBytes x 8
/-- `From<&DbU64> for u64`: first 8 bytes little endian, zero extended. -/
def u64OfKey (k : List Nat) : Nat := Vu64.ofLeBytes (k.take 8)
/-- `From<i64> for DbI64`. -/
def i64Key (x : Int) : List Nat := Vu64.leBytes (x % 2^64).toNat 8
/-- `From<&DbI64> for i64`. -/
def i64OfKey (k : List Nat) : Int :=
  let u := Vu64.ofLeBytes (k.take 8)
  if u < 2^63 then (u : Int) else (u : Int) - 2^64
/-- `From<u64> for DbVu64`. -/
def vu64Key (x : Nat) : List Nat := Vu64.encode x
/-- `From<&DbVu64> for u64` (`none` = `unwrap` panics). -/
def vu64OfKey (k : List Nat) : Option Nat := (Vu64.decode k).map (·.1)

end Abyss
