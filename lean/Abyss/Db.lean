import Abyss.Ops
import Abyss.Render
/-!
# A database directory: named maps, handles, bulk calls

`FileDb` keeps one registry per key type (`name ↦ handle`); every handle to a name is a clone of
one `Rc<RefCell<…>>`, i.e. it *is* the name.  The files of a map are `<dir>/<name>.{key,val,htx}`.
In the model a database is an association list `name ↦ (key type, Store)`; a handle is the name.
-/
namespace Abyss

structure DbMap where
  kt : KeyType
  store : Store

abbrev Db := List (List Char × DbMap)

namespace Db

def get (db : Db) (name : List Char) : Option DbMap := (db.find? (fun p => p.1 = name)).map (·.2)

def set (db : Db) (name : List Char) (m : DbMap) : Db := (name, m) :: db.filter (fun p => p.1 ≠ name)

/-- `db_map_<kt>_with_params(name, params)`: the existing map of that name if its files carry the
signature of `kt`, a fresh map with `n` buckets if there is none; `none` = refused. -/
def openMap (db : Db) (kt : KeyType) (name : List Char) (n : Nat) : Option Db :=
  match db.get name with
  | none => some (db.set name ⟨kt, Store.init n⟩)
  | some m => if m.kt.sig = kt.sig then some db else none

/-- one call through any handle to `name` -/
def step (db : Db) (name : List Char) (op : Op) : Option (Db × Out) :=
  match db.get name with
  | none => none
  | some m => (m.store.step m.kt op).map fun r => (db.set name { m with store := r.1 }, r.2)

/-- the file of a map: `<name>.<ext>` -/
def fileName (name ext : List Char) : List Char := name ++ '.' :: ext

def exts : List (List Char) := ["key".toList, "val".toList, "htx".toList]

/-- the files of the whole directory: `(file name, bytes)` -/
def files (db : Db) : List (List Char × List Nat) :=
  db.flatMap fun p =>
    let img := render p.2.kt p.2.store
    [(fileName p.1 "key".toList, img.key), (fileName p.1 "val".toList, img.val), (fileName p.1 "htx".toList, img.htx)]

end Db

/-! ## bulk calls (`bulk_get`, `bulk_delete`, `bulk_put`, `put_from_iter`)

The Rust code sorts the batch (by key, descending), pops from the end, and — for get/delete — puts
the answers back into input order by the remembered index.  The model takes the processing
order as an explicit permutation `order` of the indices, so the theorems hold for whatever order
the (unstable) sort produces. -/
namespace Store

/-- process `get` for the indices in `order`, answers stored by index -/
def bulkGetIn (kt : KeyType) (s : Store) (ks : List (List Nat)) (order : List Nat) :
    Option (List (Nat × Option (List Nat))) :=
  order.mapM fun i => (s.get kt (ks.getD i [])).map fun r => (i, r)

/-- answers put back into input order -/
def restore (n : Nat) (answers : List (Nat × Option (List Nat))) : List (Option (List Nat)) :=
  (List.range n).map fun i => ((answers.find? (·.1 = i)).map (·.2)).getD none

def bulkGet (kt : KeyType) (s : Store) (ks : List (List Nat)) (order : List Nat) :
    Option (List (Option (List Nat))) :=
  (bulkGetIn kt s ks order).map (restore ks.length)

/-- process `delete` for the indices in `order` -/
def bulkDelIn (kt : KeyType) : Store → List (List Nat) → List Nat →
    Option (Store × List (Nat × Option (List Nat)))
  | s, _, [] => some (s, [])
  | s, ks, i :: rest =>
    match s.del kt (ks.getD i []) with
    | none => none
    | some (s', r) =>
      match bulkDelIn kt s' ks rest with
      | none => none
      | some (s'', rs) => some (s'', (i, r) :: rs)

def bulkDelete (kt : KeyType) (s : Store) (ks : List (List Nat)) (order : List Nat) :
    Option (Store × List (Option (List Nat))) :=
  (bulkDelIn kt s ks order).map fun p => (p.1, restore ks.length p.2)

/-- `put` a list of pairs in list order (`put_from_iter`; `bulk_put` with the sorted order) -/
def putAll (kt : KeyType) : Store → List (List Nat × List Nat) → Option Store
  | s, [] => some s
  | s, (k, v) :: rest =>
    match s.put kt k v with
    | none => none
    | some s' => putAll kt s' rest

end Store
end Abyss
