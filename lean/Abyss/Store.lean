import Abyss.Hash
import Abyss.RecFile
/-!
# One map: bucket table + bitmap + item count + key file + value file

Mirrors `dbxxx.rs` (`find_in_hash_buckets_kt`, `put_kt`, `del_kt`, `get_kt`, `includes_key_kt`,
`relink_moved_key_piece`, `len`), `htx.rs` (`write_key_piece_offset`, item count),
for the default feature set. All results are `Option`: `none` = the real code would panic,
hang or read a slot of the wrong kind.
-/
namespace Abyss

structure KeyRec where
  key : List Nat
  valOff : Nat
  next : Nat
  deriving Repr, DecidableEq

structure Store where
  n : Nat
  heads : List (Nat × Nat)
  bits : List (Nat × Bool)
  htxEnd : Nat
  count : Nat
  kf : RecFile KeyRec
  vf : RecFile (List Nat)
  deriving Repr

/-- slot size requested for a value of `len` bytes: `roundup(encoded_piece_size)`. -/
def valueNeed (len : Nat) : Nat :=
  let (a, b, _) := Gen.valueEncodedPieceSize len
  Gen.roundup valCfg.sizeAry (a + b)

/-- slot size requested for a key record. -/
def keyNeed (r : KeyRec) : Nat :=
  let (a, b, _) := Gen.keyEncodedPieceSize r.key.length r.valOff r.next
  Gen.roundup keyCfg.sizeAry (a + b)

namespace Store

/-- a freshly created map with `n` buckets (`HtxFile::open_with_params` on an empty file:
header, `set_len`, a zero written into the last 8 bytes). -/
def init (n : Nat) : Store :=
  { n := n, heads := [], bits := [], htxEnd := Gen.htxInitLen n, count := 0,
    kf := RecFile.empty keyCfg, vf := RecFile.empty valCfg }

def headOf (s : Store) (b : Nat) : Nat := (aget s.heads b).getD 0
def bitOf (s : Store) (b : Nat) : Bool := (aget s.bits b).getD false

/-- `write_key_piece_offset(n, idx, off)`: bitmap bit, then bucket entry. -/
def writeHead (s : Store) (b off : Nat) : Store :=
  { s with
    bits := upsert s.bits b (decide (off ≠ 0)),
    heads := upsert s.heads b off,
    htxEnd := max s.htxEnd (Gen.htxHeaderSz + s.n * 8 + b / 8 + 1) }

/-- chain walk of `find_in_hash_buckets_kt`: `some (some (off, prev))` found,
`some none` absent. -/
def findLoop (kt : KeyType) (kf : RecFile KeyRec) (key : List Nat) :
    Nat → Nat → Nat → Option (Option (Nat × Nat))
  | 0, _, _ => none
  | fuel+1, cur, prev =>
    if cur = 0 then some none else
    match kf.get cur with
    | some (.used _ r) =>
      match cmpKey kt key r.key with
      | none => none
      | some true => some (some (cur, prev))
      | some false => findLoop kt kf key fuel r.next cur
    | _ => none

def find (kt : KeyType) (s : Store) (key : List Nat) : Option (Option (Nat × Nat)) :=
  findLoop kt s.kf key (s.kf.slots.length + 1) (s.headOf (bucketOf key s.n)) 0

/-- the walk of `relink_moved_key_piece`: predecessor of `old` in the chain (0 = the bucket). -/
def predLoop (kf : RecFile KeyRec) (old : Nat) : Nat → Nat → Nat → Option Nat
  | 0, _, _ => none
  | fuel+1, cur, prev =>
    if cur = old ∨ cur = 0 then some prev else
    match kf.get cur with
    | some (.used _ r) => predLoop kf old fuel r.next cur
    | _ => none

/-- `relink_moved_key_piece(hash, old, new)` -/
def relink (b : Nat) : Nat → Store → Nat → Nat → Option Store
  | 0, _, _, _ => none
  | fuel+1, s, old, new =>
    match predLoop s.kf old (s.kf.slots.length + 1) (s.headOf b) 0 with
    | none => none
    | some prev =>
      if prev = 0 then some (s.writeHead b new) else
      match s.kf.get prev with
      | some (.used _ pr) =>
        let pr' := { pr with next := new }
        match RecFile.rewrite keyCfg s.kf prev (keyNeed pr') pr' with
        | none => none
        | some (p', kf') =>
          let s' := { s with kf := kf' }
          if p' = prev then some s' else relink b fuel s' prev p'
      | _ => none

/-- `put_kt` -/
def put (kt : KeyType) (s : Store) (k v : List Nat) : Option Store :=
  let b := bucketOf k s.n
  match find kt s k with
  | none => none
  | some (some (off, _)) =>
    match s.kf.get off with
    | some (.used _ kr) =>
      match s.vf.get kr.valOff with
      | some (.used _ _) =>
        match RecFile.rewrite valCfg s.vf kr.valOff (valueNeed v.length) v with
        | none => none
        | some (voff', vf') =>
          if voff' = kr.valOff then some { s with vf := vf' } else
          let kr' := { kr with valOff := voff' }
          match RecFile.rewrite keyCfg s.kf off (keyNeed kr') kr' with
          | none => none
          | some (koff', kf') =>
            let s1 := { s with vf := vf', kf := kf' }
            if koff' = off then some s1 else relink b (s1.kf.slots.length + 1) s1 off koff'
      | _ => none
    | _ => none
  | some none =>
    let head := s.headOf b
    match RecFile.addPiece valCfg s.vf (valueNeed v.length) v with
    | none => none
    | some (voff, vf') =>
      let kr : KeyRec := { key := k, valOff := voff, next := head }
      match RecFile.addPiece keyCfg s.kf (keyNeed kr) kr with
      | none => none
      | some (koff, kf') =>
        let s1 := { s with vf := vf', kf := kf' }
        some { (s1.writeHead b koff) with count := s.count + 1 }

/-- `del_kt` -/
def del (kt : KeyType) (s : Store) (k : List Nat) : Option (Store × Option (List Nat)) :=
  let b := bucketOf k s.n
  match find kt s k with
  | none => none
  | some none => some (s, none)
  | some (some (off, prev)) =>
    match s.kf.get off with
    | some (.used _ kr) =>
      match s.vf.get kr.valOff with
      | some (.used _ value) =>
        let s1? : Option Store :=
          if prev = 0 then some (s.writeHead b kr.next) else
          match s.kf.get prev with
          | some (.used _ pr) =>
            let pr' := { pr with next := kr.next }
            match RecFile.rewrite keyCfg s.kf prev (keyNeed pr') pr' with
            | none => none
            | some (p', kf') =>
              let s' := { s with kf := kf' }
              if p' = prev then some s' else relink b (s'.kf.slots.length + 1) s' prev p'
          | _ => none
        match s1? with
        | none => none
        | some s1 =>
          match RecFile.deletePiece valCfg s1.vf kr.valOff with
          | none => none
          | some vf' =>
            match RecFile.deletePiece keyCfg s1.kf off with
            | none => none
            | some kf' =>
              some ({ s1 with vf := vf', kf := kf', count := s1.count - 1 }, some value)
      | _ => none
    | _ => none

/-- `load_value(key_offset)` -/
def loadValue (s : Store) (off : Nat) : Option (List Nat) :=
  match s.kf.get off with
  | some (.used _ kr) =>
    match s.vf.get kr.valOff with
    | some (.used _ v) => some v
    | _ => none
  | _ => none

/-- `get_kt` -/
def get (kt : KeyType) (s : Store) (k : List Nat) : Option (Option (List Nat)) :=
  match find kt s k with
  | none => none
  | some none => some none
  | some (some (off, _)) => (s.loadValue off).map some

/-- `includes_key_kt` -/
def includes (kt : KeyType) (s : Store) (k : List Nat) : Option Bool :=
  (find kt s k).map Option.isSome

/-- `len` -/
def len (s : Store) : Nat := s.count

end Store
end Abyss
