import Abyss.Render
import Abyss.Open
/-!
# An independent reader of the on-disk image: `parse : Image → Option Store`

It uses nothing but the documented layout: header fields at their offsets, slot sizes to walk
the record files, the 16 free-list heads and the `next free` links to tell free slots from used
ones (a slot is free iff it is on a free list — never decided by the zero length marker, which an
empty key or an empty value also has), and the record field order.  `parse (render s)` gives back
`s` up to the representation of the sparse bucket table (`Store.Same`): theorem `parse_render`.
-/
namespace Abyss

/-- the `u64` stored little-endian at byte offset `off` -/
def getLe64 (b : List Nat) (off : Nat) : Nat := Vu64.ofLeBytes ((b.drop off).take 8)

/-- cut the slot area into `(offset, raw bytes of the slot)` following the size fields -/
def splitSlots : Nat → Nat → List Nat → Option (List (Nat × List Nat))
  | 0, _, _ => none
  | fuel+1, off, bs =>
    if bs.isEmpty then some [] else
    match Vu64.decode bs with
    | none => none
    | some (s8, _) =>
      let sz := 8 * s8
      if sz = 0 ∨ bs.length < sz then none
      else (splitSlots fuel (off + sz) (bs.drop sz)).map ((off, bs.take sz) :: ·)

/-- raw slot read as a free slot: `(size, next free)` -/
def parseFree (raw : List Nat) : Option (Nat × Nat) :=
  match Vu64.decode raw with
  | none => none
  | some (s8, rest) =>
    match rest with
    | 0 :: rest' => if rest'.length < 8 then none else some (8 * s8, Vu64.ofLeBytes (rest'.take 8))
    | _ => none

/-- raw slot read as a used value record: `(size, value)` -/
def parseValUsed (raw : List Nat) : Option (Nat × List Nat) :=
  match Vu64.decode raw with
  | none => none
  | some (s8, rest) =>
    match Vu64.decode rest with
    | none => none
    | some (len, rest') => if rest'.length < len then none else some (8 * s8, rest'.take len)

/-- raw slot read as a used key record: `(size, record)` -/
def parseKeyUsed (raw : List Nat) : Option (Nat × KeyRec) :=
  match Vu64.decode raw with
  | none => none
  | some (s8, rest) =>
    match Vu64.decode rest with
    | none => none
    | some (len, rest') =>
      if rest'.length < len then none else
      match Vu64.decode (rest'.drop len) with
      | none => none
      | some (vo8, rest'') =>
        match Vu64.decode rest'' with
        | none => none
        | some (nx8, _) => some (8 * s8, { key := rest'.take len, valOff := 8 * vo8, next := 8 * nx8 })

/-- offsets on the free list starting at `h` (links read from the raw slots) -/
def freeOffsetsFrom (raws : List (Nat × List Nat)) : Nat → Nat → Option (List Nat)
  | 0, _ => none
  | fuel+1, h =>
    if h = 0 then some [] else
    match aget raws h with
    | none => none
    | some raw =>
      match parseFree raw with
      | none => none
      | some (_, nx) => (freeOffsetsFrom raws fuel nx).map (h :: ·)

/-- all offsets that are on one of the 16 free lists -/
def allFreeOffsets (raws : List (Nat × List Nat)) : List Nat → Option (List Nat)
  | [] => some []
  | h :: hs =>
    match freeOffsetsFrom raws (raws.length + 1) h, allFreeOffsets raws hs with
    | some a, some b => some (a ++ b)
    | _, _ => none

/-- read a record file. `parseUsed` reads a used slot. -/
def parseRecFile {α : Type} (c : FileCfg) (sig2 : List Nat) (parseUsed : List Nat → Option (Nat × α))
    (file : List Nat) : Option (RecFile α) :=
  if file.length < c.headerSz then none else
  if !(file.take 8 == c.sig1 && (file.drop 8).take 8 == sig2) then none else
  let heads := (List.range 16).map fun i => getLe64 file (c.first + 8 * i)
  match splitSlots (file.length + 1) c.headerSz (file.drop c.headerSz) with
  | none => none
  | some raws =>
    match allFreeOffsets raws heads with
    | none => none
    | some frees =>
      let slots? : Option (List (Nat × Slot α)) := raws.mapM fun p =>
        if frees.contains p.1 then (parseFree p.2).map fun q => (p.1, Slot.free q.1 q.2)
        else (parseUsed p.2).map fun q => (p.1, Slot.used q.1 q.2)
      slots?.map fun slots => { slots := slots, heads := heads, end_ := file.length }

/-- read the table file: `(n, count, bucket entries, bitmap bits, length)` -/
def parseHtx (sig2 : List Nat) (file : List Nat) : Option (Nat × Nat × List (Nat × Nat) × List (Nat × Bool) × Nat) :=
  if file.length < Gen.htxHeaderSz then none else
  if !(file.take 8 == Gen.htxSig1 && (file.drop 8).take 8 == sig2) then none else
  let n := getLe64 file Gen.htxHtSizeOffset
  let count := getLe64 file Gen.htxItemCountOffset
  if file.length < Gen.htxHeaderSz + 8 * n then none else
  let heads := (List.range n).filterMap fun i =>
    let h := getLe64 file (Gen.htxHeaderSz + 8 * i)
    if h = 0 then none else some (i, h)
  let bmStart := Gen.htxHeaderSz + 8 * n
  let bits := (List.range (8 * (file.length - bmStart))).filterMap fun i =>
    if (file.getD (bmStart + i / 8) 0) / 2 ^ (i % 8) % 2 = 1 then some (i, true) else none
  some (n, count, heads, bits, file.length)

/-- the independent reader -/
def parse (kt : KeyType) (img : Image) : Option Store :=
  match parseHtx kt.sig img.htx, parseRecFile keyCfg kt.sig parseKeyUsed img.key,
        parseRecFile valCfg kt.sig parseValUsed img.val with
  | some (n, count, heads, bits, len), some kf, some vf =>
    some { n := n, heads := heads, bits := bits, htxEnd := len, count := count, kf := kf, vf := vf }
  | _, _, _ => none

/-- two stores that differ at most in how the sparse bucket table / bitmap are listed -/
def Store.Same (s t : Store) : Prop :=
  s.n = t.n ∧ s.count = t.count ∧ s.htxEnd = t.htxEnd ∧ s.kf = t.kf ∧ s.vf = t.vf ∧
  (∀ b, s.headOf b = t.headOf b) ∧ (∀ b, s.bitOf b = t.bitOf b)

/-- executable twin of `Store.Same` (bucket indices below `n` and those listed explicitly) -/
def Store.sameB (s t : Store) : Bool :=
  s.n == t.n && s.count == t.count && s.htxEnd == t.htxEnd && decide (s.kf = t.kf) && decide (s.vf = t.vf) &&
  ((List.range s.n) ++ s.heads.map (·.1) ++ t.heads.map (·.1) ++ s.bits.map (·.1) ++ t.bits.map (·.1)).all fun b =>
    s.headOf b == t.headOf b && s.bitOf b == t.bitOf b

end Abyss
