import Abyss.Renderable
/-!
# `Sized`: every record lies in a slot at least as large as the one requested for it

This is the link between the allocator (which hands out slots of the requested size or larger) and
C09 (a record fits any legal slot at least as large as the requested one).  Together with bounds
on the file lengths it gives `Renderable` for every reachable state.
-/
namespace Abyss

/-- operations whose key and value lengths are below 2^31 (the guard of the `as u32` casts) -/
def Op.Small : Op → Prop
  | .put k v => k.length < 2^31 ∧ v.length < 2^31
  | .get k => k.length < 2^31
  | .del k => k.length < 2^31
  | .includes k => k.length < 2^31
  | .len => True
  | .isEmpty => True

structure Store.Sized (s : Store) : Prop where
  kfit : ∀ o sz r, s.kf.used o = some (sz, r) → keyNeed r ≤ sz ∧ r.key.length < 2^31
  vfit : ∀ o sz v, s.vf.used o = some (sz, v) → valueNeed v.length ≤ sz ∧ v.length < 2^31
  htx_len : Gen.htxHeaderSz + 8 * s.n ≤ s.htxEnd
  bits_in : ∀ b, s.bitOf b = true → b < 8 * (s.htxEnd - (Gen.htxHeaderSz + 8 * s.n))

end Abyss
