/-!
# The monad of the generated API wrappers (`Abyss/Gen/ApiOps.lean`)

The default methods of `trait DbXxx<KT>` (src/lib.rs: `get`, `put`, `delete`, `includes_key`, the `bulk_…` calls,
`put_from_iter`, the `…_string` variants) only reach the map through the four object-safe calls of
`trait DbXxxObjectSafe<KT>` (`get_kt`, `put_kt`, `del_kt`, `includes_key_kt`).  `tools/rs2lean.py` translates them
statement by statement into `ApiM σ`: a state monad over an ABSTRACT map state `σ` with failure (`Result`: `none` = `Err`
/ panic), parametrised by the four calls (`KtOps σ`).  So the generated functions can be instantiated with the hand model
(`Store.get/put/del/includes kt` on `σ := Store`) and with the generated engine (`Gen.getKt` … on `σ := DbSt`).
Keys, values and `String`s are byte lists (`List Nat`; a `String` is its UTF-8 bytes).
Hand-written; imports nothing; not imported by the model files.
-/
namespace Abyss

/-- state = the map, of any type `σ`; `none` = the call returned `Err` (or panicked) -/
def ApiM (σ α : Type) : Type := σ → Option (α × σ)

/-- the four calls of `trait DbXxxObjectSafe<KT>` on a map of state `σ`; a key `&KT` is its bytes -/
structure KtOps (σ : Type) where
  /-- `get_kt(&mut self, key: &KT) -> Result<Option<Vec<u8>>>` -/
  getKt : List Nat → σ → Option (Option (List Nat) × σ)
  /-- `put_kt(&mut self, key: &KT, value: &[u8]) -> Result<()>` -/
  putKt : List Nat → List Nat → σ → Option (Unit × σ)
  /-- `del_kt(&mut self, key: &KT) -> Result<Option<Vec<u8>>>` -/
  delKt : List Nat → σ → Option (Option (List Nat) × σ)
  /-- `includes_key_kt(&mut self, key: &KT) -> Result<bool>` -/
  includesKt : List Nat → σ → Option (Bool × σ)

namespace ApiM
variable {σ α : Type}

instance : Monad (ApiM σ) where
  pure a := fun s => some (a, s)
  bind x f := fun s =>
    match x s with
    | none => none
    | some (a, s') => f a s'

/-- `Err` / panic / a loop out of fuel -/
def fail : ApiM σ α := fun _ => none

/-- `slice.iter().enumerate().map(|(i, &a)| (i, a)).collect()`: every element with its index, in order -/
def enumerateFrom (i : Nat) : List α → List (Nat × α)
  | [] => []
  | a :: rest => (i, a) :: enumerateFrom (i + 1) rest

def enumerate (l : List α) : List (Nat × α) := enumerateFrom 0 l

/-- `Vec::pop`: the LAST element and the vector without it; `none` for the empty vector (which stays as it is) -/
def pop (l : List α) : Option (α × List α) :=
  match l.reverse with
  | [] => none
  | x :: rest => some (x, rest.reverse)

/-- insert before the first element whose index is not smaller -/
def insertByIdx (x : Nat × α) : List (Nat × α) → List (Nat × α)
  | [] => [x]
  | y :: ys => if x.1 ≤ y.1 then x :: y :: ys else y :: insertByIdx x ys

/-- `vec.sort_by(|a, b| a.0.cmp(&(b.0)))` on a vector of `(usize, _)`: the stable sort, ascending by the first component
(insertion sort; elements with equal first components keep their order) -/
def sortByIdx : List (Nat × α) → List (Nat × α)
  | [] => []
  | x :: xs => insertByIdx x (sortByIdx xs)

end ApiM
end Abyss
