#!/bin/sh
# builds the framework from files on disk only (offline): generated Lean, Lean library (model, lemmas,
# property theorems) + model driver, Rust harness (links /repo with the verification hooks on)
set -e
cd "$(dirname "$0")"
python3 tools/rs2lean.py /repo lean/Abyss/Gen
(cd lean && lake build Abyss abyss-driver 2>&1 | tail -3)
(cd harness && CARGO_NET_OFFLINE=true cargo build --offline 2>&1 | tail -2)
